----------------------------- MODULE MC_ICGame -----------------------------
(***************************************************************************)
(* Model-checking instance of the game object: every sequence of public    *)
(* operations on up to MaxObj live objects (copies, negations included).   *)
(* `last` holds the operation just performed, so that every state of a     *)
(* simulated behaviour is an executable step for the replay harness.       *)
(***************************************************************************)
EXTENDS ICGame

CONSTANTS Vals, MaxObj, MaxDepth, MaxList
VARIABLES objs, gh, last, depth
vars == <<objs, gh, last, depth>>

Op(name, o, o2, c, x, cs, xs) == [op |-> name, o |-> o, o2 |-> o2, c |-> c, x |-> x, cs |-> cs, xs |-> xs]
NoOp == Op("init", 0, 0, 0, 0, <<>>, <<>>)

Lists == {<<>>} \cup {<<a>> : a \in Coals}
          \cup (IF MaxList >= 2 THEN {<<p[1], p[2]>> : p \in Coals \X Coals} ELSE {})   \* duplicates removed by GoodList
GoodList(cs) == \A i, j \in 1..Len(cs) : i # j => cs[i] # cs[j]
ValLists(cs) == [1..Len(cs) -> Vals]

Ops ==
  LET O == 1..Len(objs) IN
     (IF Len(objs) < MaxObj THEN {Op("new", 0, 0, 0, 0, <<>>, <<>>)} ELSE {})
  \cup { Op(nm, o, 0, c, x, <<>>, <<>>) : nm \in {"set_value", "reveal"}, o \in O, c \in Coals, x \in Vals }
  \cup { Op(nm, o, 0, c, 0, <<>>, <<>>) : nm \in {"unset_value", "unreveal"}, o \in O, c \in Coals }
  \cup { Op(nm, o, 0, 0, 0, cs, xs) : nm \in {"set_values", "set_known_values", "set_lower_bounds", "set_upper_bounds"},
                                       o \in O, cs \in {l \in Lists : GoodList(l)}, xs \in UNION {ValLists(l) : l \in Lists} }
  \cup { Op(nm, o, 0, c, x, <<>>, <<>>) : nm \in {"set_lower_bound", "set_upper_bound"}, o \in O, c \in Coals, x \in Vals }
  \cup (IF Len(objs) < MaxObj THEN { Op(nm, o, 0, 0, 0, <<>>, <<>>) : nm \in {"copy", "neg"}, o \in O } ELSE {})
  \cup (IF Len(objs) < MaxObj THEN { Op("add", o, o2, 0, 0, <<>>, <<>>) : o \in O, o2 \in O } ELSE {})

Enabled(op) ==
  /\ op.op \in {"set_values", "set_known_values", "set_lower_bounds", "set_upper_bounds"} => Len(op.xs) = Len(op.cs)
  \* scalar bound setters are used (by the computers) on unknown coalitions only -- deliberate restriction
  /\ op.op \in {"set_lower_bound", "set_upper_bound"} => ~objs[op.o].k[op.c]

Init == objs = <<InitTab>> /\ gh = <<InitGhost>> /\ last = NoOp /\ depth = 0

Step(op) == /\ Enabled(op)
            /\ objs' = Do(op, objs)
            /\ gh' = DoGhost(op, objs, gh)
            /\ last' = op
            /\ depth' = depth + 1

Next == depth < MaxDepth /\ \E op \in Ops : Step(op)
Spec == Init /\ [][Next]_vars

View == <<objs, gh>>

KnownIffMeantInv == KnownIffMeant(objs, gh)
KnownIsExactInv  == KnownIsExact(objs, gh)
EmptyKnownZero   == \A o \in 1..Len(objs) : (last.op = "new" /\ o = Len(objs)) => objs[o] = InitTab
CopyIndependent  == [][OthersUntouched(last', objs, objs')]_vars
NegInvolution    == \A o \in 1..Len(objs) : NegT(NegT(objs[o])) = objs[o]
NegSwaps         == (last.op = "neg" /\ Outcome(last, objs) = "ok") =>
                       LET t == objs[last.o]  u == objs[Len(objs)]
                       IN  u.k = t.k /\ \A c \in Coals : u.lo[c] = 0 - t.up[c] /\ u.up[c] = 0 - t.lo[c]
BulkBoundsRespectKnown == [][ last'.op \in {"set_lower_bounds", "set_upper_bounds"} =>
                               \A c \in Coals : objs[last'.o].k[c] =>
                                  (objs'[last'.o].lo[c] = objs[last'.o].lo[c] /\ objs'[last'.o].up[c] = objs[last'.o].up[c]) ]_vars
=============================================================================
