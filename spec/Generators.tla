----------------------------- MODULE Generators -----------------------------
(***************************************************************************)
(* The generator registry's contracts (C10), transcribed from the property:*)
(* every registered name yields a superadditive game; the XOS / XS / OXS / *)
(* K-budget / coverage families additionally a monotone non-increasing     *)
(* one; identically seeded calls return identical games, except for the    *)
(* documented families that ignore the supplied random generator.          *)
(***************************************************************************)
EXTENDS GameTheory

SAMNames == {"xos", "xos_one", "xos2", "xos3", "xos12", "xos_norm_additive", "xos2_norm_additive", "xos3_norm_additive",
             "xos12_norm_additive", "xs", "oxs", "xs2", "xs3", "xs6", "k_budget_generator", "covg_fn_generator"}
BetaNames == {"graph_beta_1_1", "graph_beta_1_2", "graph_beta_1_3", "graph_beta_1_4", "graph_beta_1_5",
              "graph_beta_2_1", "graph_beta_2_2", "graph_beta_2_3", "graph_beta_2_4", "graph_beta_2_5",
              "graph_beta_3_1", "graph_beta_3_2", "graph_beta_3_3", "graph_beta_3_4", "graph_beta_3_5",
              "graph_beta_4_1", "graph_beta_4_2", "graph_beta_4_3", "graph_beta_4_4", "graph_beta_4_5",
              "graph_beta_5_1", "graph_beta_5_2", "graph_beta_5_3", "graph_beta_5_4", "graph_beta_5_5"}
PoissNames == {"graph_poiss_0.1", "graph_poiss_0.01", "graph_poiss_0.5", "graph_poiss_1", "graph_poiss_5", "graph_poiss_10", "graph_poiss_50"}
\* documented exceptions: they ignore the supplied random generator
IgnoresRng == {"graph", "graph_tirangular", "graph_increasing", "graph_decreasing", "graph_03_03", "predictible_factory"}
              \cup BetaNames \cup PoissNames

\* a name the table does not list gets the default contract (the harness tells whether it carries a SAM family prefix)
ClassOf(name, samPrefix)  == IF name \in SAMNames \/ samPrefix THEN "SAM" ELSE "SA"
SeededContract(name)      == name \notin IgnoresRng

\* class membership on a quantisation grid: every logged value is within 1/2 unit of the float value
SuperadditiveTol(v, tol) == \A c \in Coals : \A s \in Subs(c) : v[s] + v[c - s] <= v[c] + tol
MonoNonIncTol(v, tol)    == \A c \in Coals : \A s \in Subs(c) : v[s] + tol >= v[c]

\* the round-robin factory: the owner is the player whose every pair has a non-zero value
OwnerOf(v) == CHOOSE i \in Players : \A j \in Players \ {i} : v[2^i + 2^j] # 0
=============================================================================
