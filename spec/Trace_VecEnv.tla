---------------------------- MODULE Trace_VecEnv ----------------------------
(* Observed stream positions of the hidden games of real DummyVecEnv / SubprocVecEnv environments against the positions the model
   MC_VecEnv predicts (beyond the listed properties: X03).  One trace = one vector environment: after construction and after each of a
   few vector resets the position in the seed's stream of every sub-environment's hidden game is logged (-1: not in the stream). *)
EXTENDS Integers, Sequences, FiniteSets, TLC, Json, IOUtils

CONSTANT Props
Batch  == JsonDeserialize(IOEnv.TRACE_FILE)
Traces == Batch.traces
VARIABLES tid, l
tvars == <<tid, l>>
Fail(name, cond) == IF cond THEN {} ELSE {<<"X03", name>>}

\* the model's prediction (closed form of MC_VecEnv for the schedule "build all, then r vector resets in index order")
Predicted(kind, E, i, r) ==
  IF kind = "sequential" THEN (IF r = 0 THEN 2 * i ELSE 2 * E + (r - 1) * E + i)
  ELSE 2 + r

Failures(T) ==
     Fail("NoException", T.exc = "")
  \cup (IF T.exc # "" THEN {} ELSE
       Fail("HiddenGamesAreWhereTheModelPredicts",
            \A r \in 0..(Len(T.pos) - 1) : \A i \in 1..T.envs : T.pos[r + 1][i] = Predicted(T.kind, T.envs, i, r))
  \cup Fail("SequentialEnvironmentsHoldDistinctGames",
            T.kind = "sequential" => \A r \in 1..Len(T.pos) : \A i, j \in 1..T.envs : i # j => T.pos[r][i] # T.pos[r][j])
  \* the defect itself, stated so that it is noticed when it goes away: parallel workers replay one stream
  \cup Fail("ParallelWorkersReplayOneStream_KnownDefect",
            (T.kind = "parallel" /\ T.envs > 1) => \A r \in 1..Len(T.pos) : \A i, j \in 1..T.envs : T.pos[r][i] = T.pos[r][j]))

TraceInit == tid \in 1..Len(Traces) /\ l = 0
TraceNext == /\ l = 0 /\ l' = 1 /\ tid' = tid
             /\ \A f \in Failures(Traces[tid]) : PrintT(<<"VERDICT", Traces[tid].tid, 1, f[1], f[2], 0>>)
TraceSpec == TraceInit /\ [][TraceNext]_tvars
AllConsumed == TLCGet("distinct") = 2 * Len(Traces)
=============================================================================
