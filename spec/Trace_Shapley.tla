--------------------------- MODULE Trace_Shapley ---------------------------
(***************************************************************************)
(* Trace validation for the Shapley value and exploitability entry points  *)
(* (C05, C06).  Every trace is ONE evaluation of the real code:            *)
(*   kind "shapley": a complete game v, the per-player results of both     *)
(*                   entry points as certified integer intervals of        *)
(*                   n! * scale * value;                                   *)
(*   kind "expl"   : a bound vector (lo, up) set through the public bulk   *)
(*                   setters and compute_exploitability's result;          *)
(*   kind "dom"    : a bound vector, a completion w inside the box, the    *)
(*                   players' Shapley values in w and in their max-gain    *)
(*                   games.                                                *)
(***************************************************************************)
EXTENDS Gaps, Json, IOUtils

CONSTANT Props
Batch  == JsonDeserialize(IOEnv.TRACE_FILE)
Traces == Batch.traces

VARIABLES tid, l
tvars == <<tid, l>>

Fail(p, name, cond) == IF p \in Props THEN (IF cond THEN {} ELSE {<<p, name>>}) ELSE {}
InIv(x, iv) == iv[1] <= x /\ x <= iv[2]
SumIv(ivs, k) == LET f(i) == ivs[i + 1][k] IN MapThenSumSet(f, Players)

ShN(T, i, v) == IF T.useperm = 1 THEN ShapleyPermN(i, v) ELSE ShapleyWeightedN(i, v)

Failures(T) ==
  LET v  == Arr(T.v)
      t  == Tab([c \in Coals |-> c \in {0, Grand}], Arr(T.v), Arr(T.up))
  IN
  CASE T.kind = "shapley" ->
            Fail("C06", "NoException", T.exc = "")
       \cup (IF T.exc # "" THEN {} ELSE
            Fail("C06", "IsAverageMarginalContributionOverOrderings", \A i \in Players : InIv(ShN(T, i, v), T.sh_all[i + 1]))
       \cup Fail("C06", "SinglePlayerEntryPointAgrees", \A i \in Players : InIv(ShN(T, i, v), T.sh_one[i + 1]) /\ T.entry_bits = 1)
       \cup Fail("C06", "ComputingLeavesTheGameUntouched", Arr(T.lo_after) = v)
       \cup Fail("C06", "Efficiency", SumIv(T.sh_all, 1) <= Fact(N) * (v[Grand] - v[0]) /\ Fact(N) * (v[Grand] - v[0]) <= SumIv(T.sh_all, 2)))
    [] T.kind = "expl" ->
            Fail("C05", "NoException", T.exc = "")
       \cup (IF T.exc # "" THEN {} ELSE
            Fail("C05", "IsSummedBestCaseShapleyGain", InIv(ExploitabilityN(t), T.en))
       \cup Fail("C05", "IsBinomiallyWeightedGap", (t.lo[0] = 0 /\ t.up[0] = 0 /\ t.lo[Grand] = t.up[Grand]) => InIv(BinomialGapN(t), T.en))
       \cup Fail("C05", "MaxGainGameIsUpperForMembersLowerElse",
                 Len(T.mg) = N /\ \A i \in Players : Arr(T.mg[i + 1]) = MaxGain(i, t))
       \cup Fail("C05", "ReadingMaxGainGamesLeavesBoundsUntouched",
                 Arr(T.lo_after) = t.lo /\ Arr(T.up_after) = t.up /\ T.en_after = T.en)
       \cup Fail("C05", "NonNegativeWhenOrdered", (\A c \in Coals : t.lo[c] <= t.up[c]) => T.en[2] >= 0)
       \cup Fail("C05", "ZeroIffDegenerate", (\A c \in Coals : t.lo[c] <= t.up[c]) => (InIv(0, T.en) <=> AllDegenerate(t))))
    [] T.kind = "dom" ->
            LET w == Arr(T.w) IN
            Fail("C05", "NoException", T.exc = "")
       \cup (IF T.exc # "" THEN {} ELSE
            Fail("C05", "CompletionInsideBox", \A c \in Coals : t.lo[c] <= w[c] /\ w[c] <= t.up[c])
       \cup Fail("C05", "PerPlayerMaximumIsMaxGainShapley", \A i \in Players : InIv(ShapleyWeightedN(i, MaxGain(i, t)), T.maxsh[i + 1]))
       \cup Fail("C05", "NoCompletionBeatsPerPlayerMaximum",
                 \A i \in Players : T.sh_w[i + 1][1] <= T.maxsh[i + 1][2] /\ ShN(T, i, w) <= ShapleyWeightedN(i, MaxGain(i, t))))
    [] OTHER -> {}

TraceInit == tid \in 1..Len(Traces) /\ l = 0
TraceNext == /\ l = 0 /\ l' = 1 /\ tid' = tid
             /\ \A f \in Failures(Traces[tid]) : PrintT(<<"VERDICT", Traces[tid].tid, 1, f[1], f[2], 0>>)
TraceSpec == TraceInit /\ [][TraceNext]_tvars
AllConsumed == TLCGet("distinct") = 2 * Len(Traces)
=============================================================================
