------------------------------ MODULE ICGame ------------------------------
(***************************************************************************)
(* The incomplete game object (game.py): a map                             *)
(*      coalition -> (known?, lower, upper)                                *)
(* mutated in place by its public methods.  `objs` is the sequence of live *)
(* objects (copies and negations append new ones).  An operation is a      *)
(* record  [op, o, o2, c, x, cs, xs]  (object indices, coalition, value,   *)
(* coalition list, value list); Do / Outcome give its effect and result.   *)
(* The ghost (sk, mv) records the SPECIFIED meaning -- "set or revealed    *)
(* and not since unset or bulk-reset", and with which value -- without     *)
(* looking at the table.                                                   *)
(***************************************************************************)
EXTENDS Bounds

SeqSet(s)   == {s[i] : i \in 1..Len(s)}
IdxOf(s, c) == CHOOSE i \in 1..Len(s) : s[i] = c
ListFn(cs, xs, dflt) == [c \in Coals |-> IF c \in SeqSet(cs) THEN xs[IdxOf(cs, c)] ELSE dflt[c]]

\* ---- effect of one public call on the table of the object it is called on --------------
SetValueT(t, c, x) == Tab([t.k EXCEPT ![c] = TRUE], [t.lo EXCEPT ![c] = x], [t.up EXCEPT ![c] = x])
UnsetValueT(t, c)  == Tab([t.k EXCEPT ![c] = FALSE], [t.lo EXCEPT ![c] = 0], [t.up EXCEPT ![c] = 0])
SetValuesT(t, cs, xs) ==           \* set_values(values, coalitions)
  Tab([c \in Coals |-> t.k[c] \/ c \in SeqSet(cs)], ListFn(cs, xs, t.lo), ListFn(cs, xs, t.up))
SetKnownValuesT(cs, xs) == SetValuesT(InitTab, cs, xs)            \* _init_values, then set_values
SetLowerBoundsT(t, cs, xs) ==      \* bulk setter: only UNKNOWN coalitions of the list are touched
  Tab(t.k, [c \in Coals |-> IF c \in SeqSet(cs) /\ ~t.k[c] THEN xs[IdxOf(cs, c)] ELSE t.lo[c]], t.up)
SetUpperBoundsT(t, cs, xs) ==
  Tab(t.k, t.lo, [c \in Coals |-> IF c \in SeqSet(cs) /\ ~t.k[c] THEN xs[IdxOf(cs, c)] ELSE t.up[c]])
NegT(t) == Tab(t.k, [c \in Coals |-> 0 - t.up[c]], [c \in Coals |-> 0 - t.lo[c]])
AddT(t1, t2) == Tab(t1.k, [c \in Coals |-> t1.lo[c] + t2.lo[c]], [c \in Coals |-> t1.up[c] + t2.up[c]])
AllKnown(t) == \A c \in Coals : t.k[c]

\* ---- result of a call: "ok" or the exception the code raises --------------------------
Outcome(op, objs) ==
  CASE op.op = "reveal"   -> IF objs[op.o].k[op.c] THEN "AssertionError" ELSE "ok"
    [] op.op = "unreveal" -> IF objs[op.o].k[op.c] THEN "ok" ELSE "AssertionError"
    [] op.op = "add"      -> IF AllKnown(objs[op.o]) /\ AllKnown(objs[op.o2]) THEN "ok" ELSE "AssertionError"
    [] OTHER              -> "ok"

Replace(objs, o, t) == [objs EXCEPT ![o] = t]

Do(op, objs) ==
  IF Outcome(op, objs) # "ok" THEN objs
  ELSE LET t == objs[op.o] IN
  CASE op.op = "new"              -> Append(objs, InitTab)
    [] op.op = "set_value"        -> Replace(objs, op.o, SetValueT(t, op.c, op.x))
    [] op.op = "reveal"           -> Replace(objs, op.o, SetValueT(t, op.c, op.x))
    [] op.op = "unset_value"      -> Replace(objs, op.o, UnsetValueT(t, op.c))
    [] op.op = "unreveal"         -> Replace(objs, op.o, UnsetValueT(t, op.c))
    [] op.op = "set_values"       -> Replace(objs, op.o, SetValuesT(t, op.cs, op.xs))
    [] op.op = "set_known_values" -> Replace(objs, op.o, SetKnownValuesT(op.cs, op.xs))
    [] op.op = "set_lower_bounds" -> Replace(objs, op.o, SetLowerBoundsT(t, op.cs, op.xs))
    [] op.op = "set_upper_bounds" -> Replace(objs, op.o, SetUpperBoundsT(t, op.cs, op.xs))
    [] op.op = "set_lower_bound"  -> Replace(objs, op.o, Tab(t.k, [t.lo EXCEPT ![op.c] = op.x], t.up))
    [] op.op = "set_upper_bound"  -> Replace(objs, op.o, Tab(t.k, t.lo, [t.up EXCEPT ![op.c] = op.x]))
    [] op.op = "compute_none"     -> objs                       \* default bounds computer does nothing
    [] op.op = "compute_sa"       -> Replace(objs, op.o, ComputeSA(t))          \* a registered computer (traces of the repository's tests)
    [] op.op = "compute_sac"      -> Replace(objs, op.o, ComputeSACached(t))
    [] op.op = "compute_sam"      -> Replace(objs, op.o, ComputeSAMFix(t, op.x))
    [] op.op = "copy"             -> Append(objs, t)
    [] op.op = "neg"              -> Append(objs, NegT(t))
    [] op.op = "add"              -> Append(objs, AddT(t, objs[op.o2]))

\* ---- ghost: the specified meaning of "known", independent of the table ----------------
Ghost(sk, mv) == [sk |-> sk, mv |-> mv]
InitGhost == Ghost({0}, [c \in Coals |-> 0])
DoGhost(op, objs, gh) ==
  IF Outcome(op, objs) # "ok" THEN gh
  ELSE LET g == gh[op.o] IN
  CASE op.op = "new"              -> Append(gh, InitGhost)
    [] op.op \in {"set_value", "reveal"}     -> Replace(gh, op.o, Ghost(g.sk \cup {op.c}, [g.mv EXCEPT ![op.c] = op.x]))
    [] op.op \in {"unset_value", "unreveal"} -> Replace(gh, op.o, Ghost(g.sk \ {op.c}, g.mv))
    [] op.op = "set_values"       -> Replace(gh, op.o, Ghost(g.sk \cup SeqSet(op.cs), ListFn(op.cs, op.xs, g.mv)))
    [] op.op = "set_known_values" -> Replace(gh, op.o, Ghost({0} \cup SeqSet(op.cs), ListFn(op.cs, op.xs, [c \in Coals |-> 0])))
    [] op.op = "copy"             -> Append(gh, g)
    [] op.op = "neg"              -> Append(gh, Ghost(g.sk, [c \in Coals |-> 0 - g.mv[c]]))
    [] op.op = "add"              -> Append(gh, Ghost(g.sk, [c \in Coals |-> g.mv[c] + gh[op.o2].mv[c]]))
    [] OTHER                      -> gh

\* ---- properties (C17) -------------------------------------------------------------------
KnownIffMeant(objs, gh) == \A o \in 1..Len(objs) : \A c \in Coals : objs[o].k[c] <=> c \in gh[o].sk
KnownIsExact(objs, gh)  == \A o \in 1..Len(objs) : \A c \in Coals :
                              objs[o].k[c] => (objs[o].lo[c] = gh[o].mv[c] /\ objs[o].up[c] = gh[o].mv[c])
OthersUntouched(op, objs, objs2) ==
  \A o \in 1..Len(objs) : (o # op.o \/ op.op \in {"copy", "neg", "add", "new"}) => objs2[o] = objs[o]
=============================================================================
