--------------------------- MODULE MC_Generators ---------------------------
(***************************************************************************)
(* Determinism contract of the registry as a state machine: a seeded       *)
(* generator is a function of (name, n, seed); the round-robin factory is  *)
(* a counter modulo n shared by all its callers.  Values are abstracted to *)
(* what they depend on.                                                    *)
(***************************************************************************)
EXTENDS Integers, TLC

CONSTANTS Names, Seeds, NPlayers, MaxCalls
VARIABLES seen, owner, calls, lastKey, lastVal
vars == <<seen, owner, calls, lastKey, lastVal>>

Seeded(nm) == nm # "predictible_factory" /\ nm # "graph"
Init == seen = [k \in {} |-> 0] /\ owner = 0 /\ calls = 0 /\ lastKey = <<>> /\ lastVal = <<>>

Call(nm, s) ==
  /\ calls < MaxCalls /\ calls' = calls + 1
  /\ LET val == IF nm = "predictible_factory" THEN <<"owner", (owner + 1) % NPlayers>>
                ELSE IF Seeded(nm) THEN <<nm, s>> ELSE <<nm, "global-rng", calls>>
     IN  /\ lastVal' = val /\ lastKey' = <<nm, s>>
         /\ seen' = IF Seeded(nm) /\ <<nm, s>> \notin DOMAIN seen
                    THEN [k \in DOMAIN seen \cup {<<nm, s>>} |-> IF k = <<nm, s>> THEN val ELSE seen[k]] ELSE seen
  /\ owner' = IF nm = "predictible_factory" THEN (owner + 1) % NPlayers ELSE owner

Next == \E nm \in Names, s \in Seeds : Call(nm, s)
Spec == Init /\ [][Next]_vars

Deterministic == (lastKey # <<>> /\ Seeded(lastKey[1]) /\ lastKey \in DOMAIN seen) => lastVal = seen[lastKey]
RoundRobin    == [][(lastKey'[1] = "predictible_factory") => lastVal'[2] = (owner + 1) % NPlayers]_vars
=============================================================================
