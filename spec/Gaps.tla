------------------------------- MODULE Gaps -------------------------------
(***************************************************************************)
(* Gap functions (exploitability.py, norms.py) over a table of bounds.     *)
(* Everything is kept as an integer numerator: ExploitabilityN = n! times  *)
(* the exploitability, L2Sq = the square of the l2 norm.                   *)
(***************************************************************************)
EXTENDS Bounds

\* MaxGainGame(player i): upper bound where i is a member, lower bound elsewhere
MaxGain(i, t) == TLCEval([c \in Coals |-> IF (c & 2^i) # 0 THEN t.up[c] ELSE t.lo[c]])

\* compute_exploitability: sum of the players' Shapley values in their max-gain games
\* minus get_value(grand coalition) (the lower column of a known coalition)
ExploitabilityN(t) ==
  LET per(i) == ShapleyWeightedN(i, MaxGain(i, t))
  IN  MapThenSumSet(per, Players) - Fact(N) * t.lo[Grand]

\* the closed form of C05: sum over S of (up - lo)[S] * |S|! * (n - |S|)!
BinomialGapN(t) ==
  LET term(c) == (t.up[c] - t.lo[c]) * Fact(Size(c)) * Fact(N - Size(c))
  IN  MapThenSumSet(term, Coals)

Abs(x) == IF x < 0 THEN -x ELSE x
Width(t) == [c \in Coals |-> t.up[c] - t.lo[c]]
L1(t)   == LET w(c) == Abs(t.up[c] - t.lo[c]) IN MapThenSumSet(w, Coals)
LInf(t) == Max({ Abs(t.up[c] - t.lo[c]) : c \in Coals })
L2Sq(t) == LET w(c) == (t.up[c] - t.lo[c]) * (t.up[c] - t.lo[c]) IN MapThenSumSet(w, Coals)

AllDegenerate(t) == \A c \in Coals : t.up[c] = t.lo[c]
=============================================================================
