----------------------------- MODULE Trace_Crash -----------------------------
(***************************************************************************)
(* C20, observed side: every injected death / interruption inside a real   *)
(* save left data.json either exactly the previous file or the complete    *)
(* new file (it parses, earlier runs are all there).  One event per        *)
(* injected fault; the classification of the bytes is done by the parent   *)
(* process that reads them.                                                *)
(***************************************************************************)
EXTENDS Integers, Sequences, TLC, Json, IOUtils

CONSTANT Props
Batch  == JsonDeserialize(IOEnv.TRACE_FILE)
Traces == Batch.traces
VARIABLES tid, l
tvars == <<tid, l>>

Fail(name, cond) == IF cond THEN {} ELSE {<<"C20", name>>}
Failures(T, e) ==
     Fail("FileIsPreviousOrCompleteNew_" \o e.kind, e.cls \in {"old", "new"})
  \cup Fail("FileParses_" \o e.kind, e.parses = 1)
  \cup Fail("EarlierRunsPreserved_" \o e.kind, e.preserved = 1)
  \cup Fail("NextSaveAfterInterruptedSaveIsCompleteAndKeepsEverything",
            e.follow = -1 \/ (e.follow = 1 /\ e.follow_parses = 1 /\ e.follow_preserved = 1))
  \cup Fail("CompletedSaveIsNew", (e.k > T.nops /\ T.repeat_name = 0) => e.cls = "new")

TraceInit == tid \in 1..Len(Traces) /\ l = 0
TraceNext == LET T == Traces[tid] IN
             /\ l < Len(T.events) /\ l' = l + 1 /\ tid' = tid
             /\ \A f \in Failures(T, T.events[l + 1]) : PrintT(<<"VERDICT", T.tid, l + 1, f[1], f[2], T.events[l + 1].k>>)
TraceSpec == TraceInit /\ [][TraceNext]_tvars
TotalStates == LET RECURSIVE sum(_) sum(i) == IF i = 0 THEN 0 ELSE 1 + Len(Traces[i].events) + sum(i - 1) IN sum(Len(Traces))
AllConsumed == TLCGet("distinct") = TotalStates
=============================================================================
