SPECIFICATION FwdSpec
CONSTANTS
  N = 3
  GameSet = "SA"
  Comps = {"sa", "sac"}
  RepsSet = {0}
  Gaps = {"exploitability", "l1_norm", "l2_norm", "linf_norm"}
  Budgets <- BudgetsAll
  MaxResets = 0
  MaxOps = 8
PROPERTY EpisodeTerminates
PROPERTY DoneIsStable
CHECK_DEADLOCK FALSE
