---------------------------- MODULE GameTheory ----------------------------
(***************************************************************************)
(* Definitional layer: textbook definitions, written from the mathematics, *)
(* never from the code.  A game is a function Coals -> Int.                *)
(***************************************************************************)
EXTENDS Coal

\* ---- classes of games ----------------------------------------------------------
IsSuperadditive(v) == \A c \in Coals : \A s \in Subs(c) : v[s] + v[c - s] <= v[c]
IsMonoNonInc(v)    == \A c \in Coals : \A s \in Subs(c) : v[s] >= v[c]
IsSAM(v)           == IsSuperadditive(v) /\ IsMonoNonInc(v)
IsSupermodular(v)  == \A t \in Coals : \A i \in Players \ SetOf(t) : \A s \in Subs(t) :
                         v[s + 2^i] - v[s] <= v[t + 2^i] - v[t]
IsAdditive(v)      == \A c \in Coals : v[c] = SumOver([i \in Players |-> v[2^i]], SetOf(c))

\* ---- extreme superadditive completions (C02) --------------------------------------
\* best total of a partition of c into coalitions of K (K contains the singletons)
RECURSIVE BestPartition(_, _, _)
BestPartition(c, K, v) ==
  IF c = 0 THEN 0
  ELSE LET m == LowBit(c)
       IN Max({ v[t] + BestPartition(c - t, K, v) :
                  t \in {t \in K : (t & c) = t /\ (t & m) = m} })

UpperDef(c, K, v) ==
  IF c \in K THEN v[c]
  ELSE Min({ v[t] - BestPartition(t - c, K, v) : t \in {t \in K : (t & c) = c /\ t # c} })

LowerGame(K, v)       == TLCEval([c \in Coals |-> BestPartition(c, K, v)])
UpperGame(K, v)       == TLCEval([c \in Coals |-> UpperDef(c, K, v)])
\* a superadditive completion attaining the upper bound at c
UpperWitness(c, K, v) == LowerGame(K \cup {c}, [v EXCEPT ![c] = UpperDef(c, K, v)])

AgreesOn(w, K, v)     == \A c \in K : w[c] = v[c]

\* ---- Shapley value (C06): n! * (average marginal contribution over all orderings) ----
Fact(k) == IF k <= 1 THEN 1 ELSE ProductSet(1..k)
\* pos[j] = position of player j.  TLC evaluates this constant once at start-up for every module that extends GameTheory; it is
\* only ever used for N <= 8 (8! = 40320), larger instances (coalition algebra at N = 9..13) must not pay N! for it
Orderings == IF N <= 8 THEN Permutations(Players) ELSE {}
PredOf(pos, i) == IdOf({j \in Players : pos[j] < pos[i]})
ShapleyPermN(i, v) ==
  LET marg(pos) == v[PredOf(pos, i) + 2^i] - v[PredOf(pos, i)]
  IN  IF N <= 8 THEN MapThenSumSet(marg, Orderings) ELSE Assert(FALSE, "ShapleyPermN is defined for N <= 8 only")

\* the weighted form (coefficient s!(n-s-1)! for |S| = s, S without the player)
ShapleyWeightedN(i, v) ==
  LET without == {c \in Coals : (c & 2^i) = 0}
      term(c) == Fact(Size(c)) * Fact(N - Size(c) - 1) * (v[c + 2^i] - v[c])
  IN  MapThenSumSet(term, without)
=============================================================================
