SPECIFICATION Spec
CONSTANTS
  Names = {"factory", "xos", "graph", "predictible_factory"}
  Seeds = {1, 2}
  NPlayers = 3
  MaxCalls = 5
INVARIANT Deterministic
PROPERTY RoundRobin
CHECK_DEADLOCK FALSE
