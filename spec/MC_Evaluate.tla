---------------------------- MODULE MC_Evaluate ----------------------------
(***************************************************************************)
(* evaluate() over multiprocessing.Pool.starmap (evaluation.py), C12.      *)
(* A random generator is abstracted to its stream position: the k-th draw  *)
(* of the stream IS the number k; a pickled copy continues from the        *)
(* position it was pickled at.                                             *)
(*                                                                         *)
(* Parent: building environment j costs 2 draws (constructor + the reset   *)
(* it performs; the second one is the hidden game the fresh env holds).    *)
(* P = 1 : no pool; env j is built and run before env j+1 is built.        *)
(* P > 1 : list(iterable) builds ALL environments first; the task handler  *)
(*         then pickles chunk after chunk -- every chunk is a snapshot of  *)
(*         the SAME final generator state -- and workers take chunks in    *)
(*         any order, running a chunk's repetitions sequentially on the    *)
(*         chunk's own copy.                                               *)
(* Mode "worker_reset": eval_one resets the env in the worker (one more    *)
(*         draw, from the chunk's copy)  -- the mechanism of defect D12.   *)
(* Mode "parent_draw" : the hidden game is drawn (reset) in the parent      *)
(*         right after the env is built; nothing is drawn in a worker.     *)
(*         The random solver's random.Random is still pickled once per     *)
(*         chunk (open finding D12b), unless SolverPerEpisode = TRUE,      *)
(*         which models a solver restarting its stream per episode.        *)
(***************************************************************************)
EXTENDS Integers, FiniteSets, Sequences, TLC

CONSTANTS R, Procs, Mode, StepsPerEpisode, SolverPerEpisode
VARIABLES P, created, parentRng, solverParent, pickled, chunkRng, chunkSolver, taken, ran, game, solverAt
vars == <<P, created, parentRng, solverParent, pickled, chunkRng, chunkSolver, taken, ran, game, solverAt>>

Reps == 1..R
Ceil(a, b) == (a + b - 1) \div b
ChunkSize == Ceil(R, 4 * P)
ChunkOf(j) == ((j - 1) \div ChunkSize) + 1
NChunks == Ceil(R, ChunkSize)
RepsOf(c) == {j \in Reps : ChunkOf(j) = c}

Init == /\ P \in Procs /\ created = 0 /\ parentRng = 0 /\ solverParent = 0
        /\ pickled = [c \in 1..R |-> FALSE] /\ chunkRng = [c \in 1..R |-> 0] /\ chunkSolver = [c \in 1..R |-> 0]
        /\ taken = [c \in 1..R |-> 0] /\ ran = {} /\ game = [j \in Reps |-> 0] /\ solverAt = [j \in Reps |-> <<>>]

HiddenOfFresh(j) == 3 * j           \* build env j (2 draws), then reset it in the parent (1 draw), in order

\* ---- P = 1: lazily build env j, run it at once ------------------------------------------
SeqRun == /\ P = 1 /\ created < R
          /\ LET j == created + 1 IN
             /\ created' = j
             /\ IF Mode = "worker_reset"
                THEN /\ game' = [game EXCEPT ![j] = parentRng + 3] /\ parentRng' = parentRng + 3
                     /\ solverAt' = [solverAt EXCEPT ![j] = <<"stream", solverParent>>]
                     /\ solverParent' = solverParent + StepsPerEpisode
                ELSE /\ game' = [game EXCEPT ![j] = parentRng + 3] /\ parentRng' = parentRng + 3
                     /\ IF SolverPerEpisode
                        THEN solverAt' = [solverAt EXCEPT ![j] = <<"episode", j>>] /\ UNCHANGED solverParent
                        ELSE /\ solverAt' = [solverAt EXCEPT ![j] = <<"stream", solverParent>>]
                             /\ solverParent' = solverParent + StepsPerEpisode
             /\ ran' = ran \cup {j}
          /\ UNCHANGED <<P, pickled, chunkRng, chunkSolver, taken>>

\* ---- P > 1 ------------------------------------------------------------------------------
Create == /\ P > 1 /\ created < R /\ created' = created + 1 /\ parentRng' = parentRng + (IF Mode = "worker_reset" THEN 2 ELSE 3)
          /\ UNCHANGED <<P, solverParent, pickled, chunkRng, chunkSolver, taken, ran, game, solverAt>>
Pickle(c) == /\ P > 1 /\ created = R /\ c \in 1..NChunks /\ ~pickled[c] /\ \A d \in 1..(c - 1) : pickled[d]
             /\ pickled' = [pickled EXCEPT ![c] = TRUE]
             /\ chunkRng' = [chunkRng EXCEPT ![c] = parentRng] /\ chunkSolver' = [chunkSolver EXCEPT ![c] = solverParent]
             /\ UNCHANGED <<P, created, parentRng, solverParent, taken, ran, game, solverAt>>
Idle(w) == \A c \in 1..NChunks : taken[c] = w => RepsOf(c) \subseteq ran
Take(w, c) == /\ P > 1 /\ c \in 1..NChunks /\ pickled[c] /\ taken[c] = 0 /\ Idle(w)
              /\ taken' = [taken EXCEPT ![c] = w]
              /\ UNCHANGED <<P, created, parentRng, solverParent, pickled, chunkRng, chunkSolver, ran, game, solverAt>>
RunRep(w, j) == /\ P > 1 /\ j \notin ran /\ taken[ChunkOf(j)] = w /\ \A i \in RepsOf(ChunkOf(j)) : i < j => i \in ran
                /\ LET c == ChunkOf(j) IN
                   IF Mode = "worker_reset"
                   THEN /\ game' = [game EXCEPT ![j] = chunkRng[c] + 1] /\ chunkRng' = [chunkRng EXCEPT ![c] = @ + 1]
                        /\ solverAt' = [solverAt EXCEPT ![j] = <<"stream", chunkSolver[c]>>]
                        /\ chunkSolver' = [chunkSolver EXCEPT ![c] = @ + StepsPerEpisode]
                   ELSE /\ game' = [game EXCEPT ![j] = HiddenOfFresh(j)]
                        /\ IF SolverPerEpisode
                           THEN solverAt' = [solverAt EXCEPT ![j] = <<"episode", j>>] /\ UNCHANGED chunkSolver
                           ELSE /\ solverAt' = [solverAt EXCEPT ![j] = <<"stream", chunkSolver[c]>>]
                                /\ chunkSolver' = [chunkSolver EXCEPT ![c] = @ + StepsPerEpisode]
                        /\ UNCHANGED chunkRng
                /\ ran' = ran \cup {j}
                /\ UNCHANGED <<P, created, parentRng, solverParent, pickled, taken>>

Next == SeqRun \/ Create \/ (\E c \in 1..R : Pickle(c)) \/ (\E w \in 1..P, c \in 1..R : Take(w, c)) \/ (\E w \in 1..P, j \in Reps : RunRep(w, j))
Spec == Init /\ [][Next]_vars

\* ---- C12 ---------------------------------------------------------------------------------
\* distinct repetitions are evaluated on independently drawn hidden games (never replays of one another)
DistinctDraws == \A i, j \in ran : i # j => game[i] # game[j]
\* for a fixed seed the hidden game and the solver's random stream of repetition j do not depend on the number of workers:
\* they equal what the sequential run (P = 1) gives
SeqGame(j)   == 3 * j
SeqSolver(j) == IF SolverPerEpisode /\ Mode # "worker_reset" THEN <<"episode", j>> ELSE <<"stream", (j - 1) * StepsPerEpisode>>
SameGamesForAllP  == \A j \in ran : game[j] = SeqGame(j)
SolverStreamSameForAllP == \A j \in ran : solverAt[j] = SeqSolver(j)
SameForAllP  == SameGamesForAllP /\ SolverStreamSameForAllP
AllRun       == <>(ran = Reps)
=============================================================================
