---------------------------- MODULE MC_Evaluate ----------------------------
(***************************************************************************)
(* evaluate() over multiprocessing.Pool.starmap (evaluation.py), C12.      *)
(* A random generator is abstracted to its stream position: the k-th draw  *)
(* of the stream IS the number k; a pickled copy continues from the        *)
(* position it was pickled at.                                             *)
(*                                                                         *)
(* Parent: building environment j costs 2 draws (constructor + the reset   *)
(* it performs; the second one is the hidden game the fresh env holds).    *)
(* P = 1 : no pool; env j is built and run before env j+1 is built.        *)
(* P > 1 : list(iterable) builds ALL environments first; the task handler  *)
(*         then pickles chunk after chunk -- every chunk is a snapshot of  *)
(*         the SAME final generator state -- and workers take chunks in    *)
(*         any order, running a chunk's repetitions sequentially on the    *)
(*         chunk's own copy.                                               *)
(* Mode "worker_reset": eval_one resets the env in the worker (one more    *)
(*         draw, from the chunk's copy)  -- the mechanism of defect D12.   *)
(* Mode "parent_draw" : the fresh environment's own hidden game is used,   *)
(*         nothing is drawn in a worker; the random solver restarts its    *)
(*         stream per episode from (seed, hidden game).                    *)
(***************************************************************************)
EXTENDS Integers, FiniteSets, Sequences, TLC

CONSTANTS R, Procs, Mode, StepsPerEpisode
VARIABLES P, created, parentRng, solverParent, pickled, chunkRng, chunkSolver, taken, ran, game, solverAt
vars == <<P, created, parentRng, solverParent, pickled, chunkRng, chunkSolver, taken, ran, game, solverAt>>

Reps == 1..R
Ceil(a, b) == (a + b - 1) \div b
ChunkSize == Ceil(R, 4 * P)
ChunkOf(j) == ((j - 1) \div ChunkSize) + 1
NChunks == Ceil(R, ChunkSize)
RepsOf(c) == {j \in Reps : ChunkOf(j) = c}

Init == /\ P \in Procs /\ created = 0 /\ parentRng = 0 /\ solverParent = 0
        /\ pickled = [c \in 1..R |-> FALSE] /\ chunkRng = [c \in 1..R |-> 0] /\ chunkSolver = [c \in 1..R |-> 0]
        /\ taken = [c \in 1..R |-> 0] /\ ran = {} /\ game = [j \in Reps |-> 0] /\ solverAt = [j \in Reps |-> <<>>]

HiddenOfFresh(j) == 2 * j           \* the second draw made while building env j (parent-side, in order)

\* ---- P = 1: lazily build env j, run it at once ------------------------------------------
SeqRun == /\ P = 1 /\ created < R
          /\ LET j == created + 1 IN
             /\ created' = j
             /\ IF Mode = "worker_reset"
                THEN /\ game' = [game EXCEPT ![j] = parentRng + 3] /\ parentRng' = parentRng + 3
                     /\ solverAt' = [solverAt EXCEPT ![j] = <<"stream", solverParent>>]
                     /\ solverParent' = solverParent + StepsPerEpisode
                ELSE /\ game' = [game EXCEPT ![j] = parentRng + 2] /\ parentRng' = parentRng + 2
                     /\ solverAt' = [solverAt EXCEPT ![j] = <<"episode-seed", parentRng + 2>>]
                     /\ UNCHANGED solverParent
             /\ ran' = ran \cup {j}
          /\ UNCHANGED <<P, pickled, chunkRng, chunkSolver, taken>>

\* ---- P > 1 ------------------------------------------------------------------------------
Create == /\ P > 1 /\ created < R /\ created' = created + 1 /\ parentRng' = parentRng + 2
          /\ UNCHANGED <<P, solverParent, pickled, chunkRng, chunkSolver, taken, ran, game, solverAt>>
Pickle(c) == /\ P > 1 /\ created = R /\ c \in 1..NChunks /\ ~pickled[c] /\ \A d \in 1..(c - 1) : pickled[d]
             /\ pickled' = [pickled EXCEPT ![c] = TRUE]
             /\ chunkRng' = [chunkRng EXCEPT ![c] = parentRng] /\ chunkSolver' = [chunkSolver EXCEPT ![c] = solverParent]
             /\ UNCHANGED <<P, created, parentRng, solverParent, taken, ran, game, solverAt>>
Idle(w) == \A c \in 1..NChunks : taken[c] = w => RepsOf(c) \subseteq ran
Take(w, c) == /\ P > 1 /\ c \in 1..NChunks /\ pickled[c] /\ taken[c] = 0 /\ Idle(w)
              /\ taken' = [taken EXCEPT ![c] = w]
              /\ UNCHANGED <<P, created, parentRng, solverParent, pickled, chunkRng, chunkSolver, ran, game, solverAt>>
RunRep(w, j) == /\ P > 1 /\ j \notin ran /\ taken[ChunkOf(j)] = w /\ \A i \in RepsOf(ChunkOf(j)) : i < j => i \in ran
                /\ LET c == ChunkOf(j) IN
                   IF Mode = "worker_reset"
                   THEN /\ game' = [game EXCEPT ![j] = chunkRng[c] + 1] /\ chunkRng' = [chunkRng EXCEPT ![c] = @ + 1]
                        /\ solverAt' = [solverAt EXCEPT ![j] = <<"stream", chunkSolver[c]>>]
                        /\ chunkSolver' = [chunkSolver EXCEPT ![c] = @ + StepsPerEpisode]
                   ELSE /\ game' = [game EXCEPT ![j] = HiddenOfFresh(j)]
                        /\ solverAt' = [solverAt EXCEPT ![j] = <<"episode-seed", HiddenOfFresh(j)>>]
                        /\ UNCHANGED <<chunkRng, chunkSolver>>
                /\ ran' = ran \cup {j}
                /\ UNCHANGED <<P, created, parentRng, solverParent, pickled, taken>>

Next == SeqRun \/ Create \/ (\E c \in 1..R : Pickle(c)) \/ (\E w \in 1..P, c \in 1..R : Take(w, c)) \/ (\E w \in 1..P, j \in Reps : RunRep(w, j))
Spec == Init /\ [][Next]_vars

\* ---- C12 ---------------------------------------------------------------------------------
\* distinct repetitions are evaluated on independently drawn hidden games (never replays of one another)
DistinctDraws == \A i, j \in ran : i # j => game[i] # game[j]
\* for a fixed seed the hidden game and the solver's random stream of repetition j do not depend on the number of workers:
\* they equal what the sequential run (P = 1) gives
SeqGame(j)   == IF Mode = "worker_reset" THEN 3 * j ELSE 2 * j
SeqSolver(j) == IF Mode = "worker_reset" THEN <<"stream", (j - 1) * StepsPerEpisode>> ELSE <<"episode-seed", 2 * j>>
SameForAllP  == \A j \in ran : game[j] = SeqGame(j) /\ solverAt[j] = SeqSolver(j)
AllRun       == <>(ran = Reps)
=============================================================================
