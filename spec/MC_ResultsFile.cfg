SPECIFICATION Spec
CONSTANTS
  Names = {"a", "b", "c"}
  Entries = {1, 2, 3, 4}
  MaxSaves = 5
INVARIANT FirstWins
PROPERTY NeverOverwritten
PROPERTY RepeatIsNoop
PROPERTY NewNameIsAdded
CHECK_DEADLOCK FALSE
