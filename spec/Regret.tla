------------------------------- MODULE Regret -------------------------------
(***************************************************************************)
(* The regret minimiser of regret.py (C14).  The viable coalitions (all    *)
(* but the empty one, the singletons and the grand coalition) are          *)
(* re-indexed 0..c-1; a node of the game tree is the SET of viable         *)
(* coalitions revealed so far (a "meta-coalition"), identified in the code *)
(* by the bitmask id = sum of 2^i; nodes are ranked by size, then in       *)
(* itertools.combinations order.  Every node with fewer than L elements    *)
(* holds a regret-matching minimiser over the c coalitions.                *)
(* Arithmetic is exact (Rational); the code works in float32.              *)
(***************************************************************************)
EXTENDS Rational, SequencesExt, FiniteSetsExt

CONSTANTS NP,        \* number of players
          L,         \* reveal limit handed to the constructor
          ClipLimit, \* BOOLEAN: the constructor clips the limit to c (the repaired code) -- FALSE models the unrepaired one
          AllocByMaxId  \* BOOLEAN: the id -> rank table has max id + 1 entries (repaired) -- FALSE: as many entries as there are nodes

c   == 2^NP - NP - 2
Co  == 0..(c - 1)
Leff == IF ClipLimit THEN (IF L < c THEN L ELSE c) ELSE L            \* the limit the object works with
Lenum == IF L < c THEN L ELSE c                                       \* metacoalition_ids_by_coalition_size always clips
Nodes   == {S \in SUBSET Co : Cardinality(S) <= Lenum}
RMNodes == {S \in SUBSET Co : Cardinality(S) <= Leff - 1}            \* coalitions_up_to(c, limit - 1)
Leaves  == {S \in Nodes : Cardinality(S) = Lenum}
IdOfNode(S) == SumSet({2^i : i \in S})

\* ---- ranking -------------------------------------------------------------------------
RECURSIVE Comb(_, _)
Comb(seq, k) == IF k = 0 THEN << {} >> ELSE IF Len(seq) < k THEN << >>
                ELSE LET w == Comb(Tail(seq), k - 1) IN [i \in 1..Len(w) |-> w[i] \cup {Head(seq)}] \o Comb(Tail(seq), k)
RECURSIVE RankSeqFrom(_)
RankSeqFrom(k) == IF k > Lenum THEN << >> ELSE Comb([i \in 1..c |-> i - 1], k) \o RankSeqFrom(k + 1)
RankSeq == RankSeqFrom(0)                    \* rank r (0-based) |-> node RankSeq[r + 1]
NumNodes == Len(RankSeq)
AllocSize == IF AllocByMaxId THEN Max({IdOfNode(RankSeq[r]) : r \in 1..NumNodes}) + 1 ELSE NumNodes

RankBijection == /\ \A r1, r2 \in 1..NumNodes : r1 # r2 => RankSeq[r1] # RankSeq[r2]
                 /\ {RankSeq[r] : r \in 1..NumNodes} = Nodes
                 /\ \A r \in 1..(NumNodes - 1) : Cardinality(RankSeq[r]) <= Cardinality(RankSeq[r + 1])
\* the constructor writes rank r at position id(node r) of a table with AllocSize entries
Constructible == \A r \in 1..NumNodes : IdOfNode(RankSeq[r]) < AllocSize

\* ---- regret matching ---------------------------------------------------------------------
NaN == <<0, 0>>
Strategy(R, nd) ==
  LET pos == [x \in Co |-> RPos(R[nd][x])]
      tot == RSumOver(pos, Co)
  IN  IF tot = Zero
      THEN LET un == Co \ nd IN
           IF un = {} THEN [x \in Co |-> NaN]                         \* 0/0: the all-revealed node must not hold a minimiser
           ELSE [x \in Co |-> IF x \in un THEN <<1, Cardinality(un)>> ELSE Zero]
      ELSE [x \in Co |-> RDiv(pos[x], tot)]

\* bottom-up values under the current strategies; q gives the terminal values of the leaves
RECURSIVE Val(_, _, _)
Val(R, q, nd) ==
  IF nd \notin RMNodes THEN RInt(q[nd])
  ELSE LET s == Strategy(R, nd) IN
       RSumOver([x \in Co |-> IF x \in nd THEN Zero ELSE RMul(s[x], Val(R, q, nd \cup {x}))], Co)
QVal(R, q, nd, x) == IF x \in nd THEN Zero ELSE Val(R, q, nd \cup {x})
Delta(R, q, nd) == [x \in Co |-> RSub(QVal(R, q, nd, x), Val(R, q, nd))]

RECURSIVE Reach(_, _)
Reach(R, nd) == IF nd = {} THEN One
                ELSE RSumOver([x \in Co |-> IF x \in nd /\ (nd \ {x}) \in RMNodes
                                             THEN RMul(Reach(R, nd \ {x}), Strategy(R, nd \ {x})[x]) ELSE Zero], Co)

NextRegret(R, q, plus) ==
  [nd \in RMNodes |-> [x \in Co |-> LET v == RAdd(R[nd][x], Delta(R, q, nd)[x]) IN IF plus THEN RPos(v) ELSE v]]
NextStrategySum(R, S, q, plus, it) ==
  [nd \in RMNodes |-> [x \in Co |-> RAdd(S[nd][x], RMul(RInt(IF plus THEN it ELSE 1), RMul(Strategy(R, nd)[x], Reach(R, nd))))]]

ZeroTab == [nd \in RMNodes |-> [x \in Co |-> Zero]]

\* ---- properties on a regret table ----------------------------------------------------------
IsDistribution(s) == (\A x \in Co : s[x] # NaN /\ RLeq(Zero, s[x])) /\ RSumOver(s, Co) = One
SupportUnused(s, nd) == \A x \in nd : s[x] = Zero
AvgStrategy(S, nd) == LET tot == RSumOver(S[nd], Co) IN
                      IF tot = Zero THEN Strategy(ZeroTab, nd) ELSE [x \in Co |-> RDiv(S[nd][x], tot)]
Orthogonal(R, q, nd) == RSumOver([x \in Co |-> RMul(Strategy(R, nd)[x], Delta(R, q, nd)[x])], Co) = Zero
=============================================================================
