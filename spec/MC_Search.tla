----------------------------- MODULE MC_Search -----------------------------
(***************************************************************************)
(* The exhaustive search distributed over a process pool: P workers take   *)
(* chunks of the task list in any order and run the tasks of a chunk       *)
(* sequentially on the chunk's own (pickled) copy of the game object,      *)
(* whose table is whatever the previous task of the chunk left there.      *)
(* Invariants: every reveal set is evaluated exactly once and the value    *)
(* stored for it is the gap of the knowledge K0 + set -- for every number  *)
(* of workers, chunking and schedule.                                      *)
(***************************************************************************)
EXTENDS Search

CONSTANTS GameIx, Comp, Rep, Gap, MaxSize, Procs, ExtraKnown

G3 == << <<0, 0, 0, 1, 0, 1, 2, 3>>, <<0, 1, -1, 0, 1, 4, 0, 5>>, <<0, 1, 2, 3, 3, 4, 5, 6>>, <<0, -1, -1, -2, -1, 0, -2, 1>> >>
G4 == << <<0, 0, 0, 1, 0, 0, 0, 2, 0, 1, 0, 2, 0, 1, 1, 4>>, <<0, 1, 1, 2, -1, 0, 0, 3, 0, 1, 2, 3, -1, 2, 1, 5>> >>
Hid == Arr(IF N = 3 THEN G3[GameIx] ELSE G4[GameIx])
Cfg == [comp |-> Comp, r |-> Rep, gap |-> Gap, budget |-> -1, initial |-> Minimal]
K0 == Minimal \cup ExtraKnown
U  == Coals \ K0
Tasks == Enumeration(U, MaxSize)
NT == Len(Tasks)

VARIABLES P, taken, prog, btab, res, evals
vars == <<P, taken, prog, btab, res, evals>>

Chunks == 1..NumChunks(NT, P)
TasksOf(c) == {i \in 1..NT : ChunkOf(i, NT, P) = c}
Start == FreshTab(K0, Hid)             \* the game object as the parent pickles it

Init == /\ P \in Procs
        /\ taken = [c \in 1..NT |-> 0] /\ prog = [c \in 1..NT |-> 0]
        /\ btab = [c \in 1..NT |-> Start] /\ res = [i \in 1..NT |-> -1] /\ evals = [i \in 1..NT |-> 0]

Busy(w) == \E c \in Chunks : taken[c] = w /\ prog[c] < Cardinality(TasksOf(c))
Take(w, c) == /\ c \in Chunks /\ taken[c] = 0 /\ ~Busy(w)
              /\ taken' = [taken EXCEPT ![c] = w] /\ UNCHANGED <<P, prog, btab, res, evals>>
Run(w, c) == /\ c \in Chunks /\ taken[c] = w /\ prog[c] < Cardinality(TasksOf(c))
             /\ LET i == Min(TasksOf(c)) + prog[c]
                    t == Compute(Comp, Rep, FreshTab(K0 \cup Tasks[i], Hid))     \* set_known_values forgets the chunk-local table first
                IN  /\ btab' = [btab EXCEPT ![c] = t]
                    /\ res' = [res EXCEPT ![i] = GapN(Gap, t)]
                    /\ evals' = [evals EXCEPT ![i] = @ + 1]
             /\ prog' = [prog EXCEPT ![c] = @ + 1] /\ UNCHANGED <<P, taken>>
Next == \E w \in 1..P, c \in 1..NT : Take(w, c) \/ Run(w, c)
Spec == Init /\ [][Next]_vars

Finished == \A c \in Chunks : prog[c] = Cardinality(TasksOf(c))

EnumerationIsExactlyTheRevealSets ==
  /\ {Tasks[i] : i \in 1..NT} = RevealSets(U, MaxSize)
  /\ NT = Cardinality(RevealSets(U, MaxSize))                  \* no duplicates
ChunksPartitionTasks == UNION {TasksOf(c) : c \in Chunks} = 1..NT
EachOnce     == Finished => \A i \in 1..NT : evals[i] = 1
ResultIsGap  == \A i \in 1..NT : res[i] # -1 => res[i] = GapOf(Cfg, K0, Tasks[i], Hid)
NeverTwice   == \A i \in 1..NT : evals[i] <= 1
\* best states: the per-size minimum is attained and (superadditive game, SA computer) non-increasing in the size
MinOfSize(s) == Min({GapOf(Cfg, K0, S, Hid) : S \in {S \in RevealSets(U, MaxSize) : Cardinality(S) = s}})
CurveNonIncreasing == \A s \in 0..(MaxSize - 1) : (s + 1 <= Cardinality(U)) => MinOfSize(s + 1) <= MinOfSize(s)
=============================================================================
