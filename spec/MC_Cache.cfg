SPECIFICATION Spec
CONSTANTS
  Sizes = {2, 3, 4}
  MaxCalls = 5
INVARIANT CacheFaithful
INVARIANT HandedOwnSize
PROPERTY NeverEvicted
CHECK_DEADLOCK FALSE
