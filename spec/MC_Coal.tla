------------------------------ MODULE MC_Coal ------------------------------
(***************************************************************************)
(* Internal consistency of the coalition algebra and of the class          *)
(* predicates (C18): the id encoding is a bijection with the finite sets   *)
(* of players, the id-level operations are the set operations, the         *)
(* relation codes partition the pairs.  One coalition pair per state.      *)
(***************************************************************************)
EXTENDS GameTheory

VARIABLES a, b, picked
vars == <<a, b, picked>>
Init == a = 0 /\ b = 0 /\ picked = FALSE
Next == ~picked /\ picked' = TRUE /\ a' \in Coals /\ b' \in Coals
Spec == Init /\ [][Next]_vars

IdBijective   == IdOf(SetOf(a)) = a /\ (SetOf(a) = SetOf(b) => a = b)
SizeIsCard    == Size(a) = Cardinality(SetOf(a))
UnionIsOr     == SetOf(a | b) = SetOf(a) \cup SetOf(b)
InterIsAnd    == SetOf(a & b) = SetOf(a) \cap SetOf(b)
DiffIsAndNot  == SetOf(Diff(a, b)) = SetOf(a) \ SetOf(b)
ComplIsRest   == SetOf(Compl(a)) = Players \ SetOf(a)
SubsAreSubsets   == {SetOf(s) : s \in Subs(a)} = SUBSET SetOf(a)
SupersAreSupersets == {SetOf(s) : s \in Supers(a)} = {S \in SUBSET Players : SetOf(a) \subseteq S}
SubIffContained  == (b \in Subs(a)) <=> (SetOf(b) \subseteq SetOf(a))
RelCodesPartition == LET r == RelCode(a, b) IN
                        /\ r \in {-2, -1, 0, 1, 2}
                        /\ (r = 1 <=> (b # 0 /\ b # a /\ SetOf(b) \subseteq SetOf(a)))
                        /\ (r = 2 <=> (b # 0 /\ b # a /\ SetOf(a) \subseteq SetOf(b)))
=============================================================================
