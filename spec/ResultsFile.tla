---------------------------- MODULE ResultsFile ----------------------------
(***************************************************************************)
(* The results file data.json (run/save.py), logical layer:                *)
(*    file : name -> entry ;  Save(name, e) adds e under a NEW name and    *)
(*    does nothing for a name that is already there.                       *)
(* An entry is whatever JSON holds after the round trip; matrices are      *)
(* sequences of rows of tokens (a token = one float bit pattern, NaN one   *)
(* token), so equality here is bit equality there.                         *)
(***************************************************************************)
EXTENDS Integers, Sequences, FiniteSets, TLC

\* (the type comments are for Apalache, see Apa_ResultsFile.tla; TLC ignores them)
\* @type: (a -> b, a, b) => (a -> b);
Save(file, name, entry) ==
  IF name \in DOMAIN file THEN file
  ELSE [x \in DOMAIN file \cup {name} |-> IF x = name THEN entry ELSE file[x]]

\* @type: (a -> b, a -> b) => Bool;
EarlierUnchanged(file, file2) == \A x \in DOMAIN file : x \in DOMAIN file2 /\ file2[x] = file[x]
\* @type: (Seq(Seq(a))) => <<Int, Int>>;
Shape(m) == <<Len(m), IF Len(m) = 0 THEN 0 ELSE Len(m[1])>>
\* @type: (Seq(Seq(a))) => Bool;
Rectangular(m) == \A i \in 1..Len(m) : Len(m[i]) = Len(m[1])
=============================================================================
