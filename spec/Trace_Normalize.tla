-------------------------- MODULE Trace_Normalize --------------------------
(***************************************************************************)
(* Trace validation of normalize_game / denormalize_game (C15).  One trace *)
(* = one game normalised by the real code (value table or graph game).     *)
(* exact mode: integer/dyadic games; the output is bound by certified      *)
(*   integer intervals of out[S] * surplus and must contain v0[S].         *)
(* quant mode: float games of the generator families; outputs on a 2^-20   *)
(*   grid, with a tolerance that grows with the condition number           *)
(*   scale/|surplus| (logged as its binary exponent cond_e).               *)
(***************************************************************************)
EXTENDS Normalize, Json, IOUtils

CONSTANT Props
Batch  == JsonDeserialize(IOEnv.TRACE_FILE)
Traces == Batch.traces
VARIABLES tid, l
tvars == <<tid, l>>

Fail(name, cond) == IF cond THEN {} ELSE {<<"C15", name>>}
InIv(x, iv) == iv[1] <= x /\ x <= iv[2]
ONE == 1048576                                   \* 1.0 on the output grid
TolQ(e) == IF e <= 9 THEN 3 ELSE IF e <= 28 THEN 2^(e - 8) ELSE 2 * ONE
Trivial(e) == e > 26
NearlyAdditive(e) == e >= 48                    \* |surplus| <= 2n * 2^-52 * scale (n <= 8): indistinguishable from 0

Failures(T) ==
  LET v   == Arr(T.v)
      out == Arr(T.out)
      z   == Arr(T.zero)
      e   == T.cond_e
  IN
  Fail("NoException", T.exc = "")
  \cup (IF T.exc # "" THEN {} ELSE
    (IF T.mode = "exact"
     THEN LET v0 == ZeroNorm(v)  D == Surplus(v) IN
             Fail("CodeLoopComputesZeroNormalisation", ZeroNormAlg(v) = v0)
        \cup Fail("ValuesAreZeroNormalisedOverSurplus", \A c \in Coals : InIv(v0[c], out[c]))
        \cup Fail("GrandIsExactlyOneOrGameIdenticallyZero",
                  IF D = 0 THEN \A c \in Coals : z[c] = 1 ELSE (T.one_grand = 1 \/ T.rep = "graph"))  \* a graph game's grand value is a rounded sum
        \cup Fail("NormInfoIsSurplusAndSingletons",
                  InIv(D, T.surplus) /\ \A i \in Players : T.singles[i + 1] = v[2^i])
        \cup Fail("InUnitRange", IsSuperadditive(v) => InUnitRange(v0))
        \cup Fail("StillSuperadditive", IsSuperadditive(v) => StillSA(v0))
     ELSE    Fail("InUnitRange", Trivial(e) \/ \A c \in Coals : out[c][1] >= 0 - TolQ(e) /\ out[c][1] <= ONE + TolQ(e))
        \cup Fail("GrandIsExactlyOneOrGameIdenticallyZero",
                  \/ T.one_grand = 1
                  \/ (T.rep = "graph" /\ out[Grand][1] >= ONE - 1 /\ out[Grand][1] <= ONE + 1)
                  \/ \A c \in Coals : (out[c][1] >= -1 /\ out[c][1] <= 1))
        \cup Fail("AdditiveGameNormalisesToZero", NearlyAdditive(e) => \A c \in Coals : (out[c][1] >= -1 /\ out[c][1] <= 1))
        \cup Fail("StillSuperadditive",
                  Trivial(e) \/ \A c \in Coals : \A s \in Subs(c) : out[s][1] + out[c - s][1] <= out[c][1] + 3 * TolQ(e)))
    \cup Fail("SingletonsExactlyZero", \A i \in Players : z[2^i] = 1)
    \cup Fail("DenormaliseRestoresOriginal", T.den_err <= 8 * N + 8)
    \cup Fail("GraphAndTableNormaliseAlike",
              T.hasg = 1 => \A c \in Coals : LET a == T.gout[c + 1]  b == out[c]
                                             IN  IF T.mode = "exact" THEN a = b
                                                 ELSE Trivial(e) \/ (a[1] - b[1] <= TolQ(e) /\ b[1] - a[1] <= TolQ(e))))

TraceInit == tid \in 1..Len(Traces) /\ l = 0
TraceNext == /\ l = 0 /\ l' = 1 /\ tid' = tid
             /\ \A f \in Failures(Traces[tid]) : PrintT(<<"VERDICT", Traces[tid].tid, 1, f[1], f[2], 0>>)
TraceSpec == TraceInit /\ [][TraceNext]_tvars
AllConsumed == TLCGet("distinct") = 2 * Len(Traces)
=============================================================================
