------------------------------- MODULE Coal -------------------------------
(***************************************************************************)
(* Coalition algebra of incomplete_cooperative (coalitions.py,             *)
(* coalition_ids.py).  A coalition is identified by its id = sum of 2^i    *)
(* over its players, exactly as in the code; SetOf / IdOf give the         *)
(* finite-set meaning, which is the oracle for C18.                        *)
(***************************************************************************)
EXTENDS Integers, FiniteSets, Sequences, Bitwise, FiniteSetsExt, TLC

CONSTANT N                      \* number of players
ASSUME N \in Nat /\ N >= 1

Players == 0..(N - 1)
NC      == 2^N                  \* number of coalitions
Coals   == 0..(NC - 1)
Empty   == 0
Grand   == NC - 1

\* ---- definitional (finite-set) meaning -------------------------------------
SetOf(c) == {i \in Players : (c \div (2^i)) % 2 = 1}
IdOf(S)  == SumSet({2^i : i \in S})

\* ---- tables, computed once ---------------------------------------------------
SizeT   == TLCEval([c \in Coals |-> Cardinality(SetOf(c))])
Size(c) == SizeT[c]

SubsT   == TLCEval([c \in Coals |-> {s \in Coals : (s & c) = s}])
Subs(c) == SubsT[c]                       \* every sub-coalition, {} and c included
ProperSubs(c) == Subs(c) \ {0, c}         \* non-empty proper sub-coalitions

SupersT == TLCEval([c \in Coals |-> {s \in Coals : (s & c) = c}])
Supers(c) == SupersT[c]                   \* every super-coalition, c included
StrictSupers(c) == Supers(c) \ {c}

Compl(c)   == Grand - c
Diff(a, b) == a - (a & b)
Disjoint(a, b) == (a & b) = 0
Single(i)  == 2^i
Singletons == {2^i : i \in Players}
Minimal    == {0, Grand} \cup Singletons  \* the minimal information K_0
Explorable == Coals \ Minimal

LowBit(c)  == 2^Min(SetOf(c))             \* singleton of the lowest player of c (c # 0)

\* coalitions of a given size, in increasing id order (the order of a stable sort by size)
OfSize(k)  == {c \in Coals : Size(c) = k}

\* JSON arrays indexed by coalition id arrive as 1-based sequences
Arr(seq)   == TLCEval([c \in Coals |-> seq[c + 1]])

\* sum of f over a set of coalitions / players
RECURSIVE SumOver(_, _)
SumOver(f, S) == IF S = {} THEN 0 ELSE LET x == CHOOSE x \in S : TRUE IN f[x] + SumOver(f, S \ {x})

\* relation code of bounds._get_sub_super_coalition_structure, with the code's override order
RelCode(c, d) == IF d = 0 THEN -2
                 ELSE IF d = c THEN 0
                 ELSE IF (d & c) = c THEN 2
                 ELSE IF (d & c) = d THEN 1
                 ELSE -1
=============================================================================
