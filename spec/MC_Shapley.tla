---------------------------- MODULE MC_Shapley ----------------------------
(***************************************************************************)
(* C06: the weighted-sum Shapley value used by the code equals the         *)
(* average marginal contribution over all n! orderings.  Both sides are    *)
(* linear in the game, so equality on the unit games e_S (S non-empty) is  *)
(* equality for every real-valued game with v(empty) = 0.                  *)
(* C05: exploitability (sum of max-gain Shapley values minus the grand     *)
(* coalition) equals the binomially weighted gap; again linear in (lo,up), *)
(* checked on a basis; domination checked on all corners of small boxes.   *)
(* One basis element / bound vector per state, so that TLC's workers       *)
(* evaluate the invariants in parallel.                                    *)
(***************************************************************************)
EXTENDS Gaps

CONSTANTS Mode,        \* "basis" | "small" | "box"
          UsePerm,     \* BOOLEAN: compare with the n! orderings (n <= 7)
          SmallVals    \* value range for the "small"/"box" modes

VARIABLES kind, g, h       \* kind of item, game / lower vector, upper vector
vars == <<kind, g, h>>

Zero == [c \in Coals |-> 0]
Unit(s) == [c \in Coals |-> IF c = s THEN 1 ELSE 0]
NonEmpty == Coals \ {0}

Init == kind = "none" /\ g = Zero /\ h = Zero

PickUnitGame == \E s \in NonEmpty : kind' = "game" /\ g' = Unit(s) /\ h' = Zero
\* bound vectors with the grand coalition known (lo = up there) and the empty coalition known 0
PickUnitBounds == \E s \in NonEmpty \ {Grand} :
                     \/ kind' = "bounds" /\ g' = Unit(s) /\ h' = Zero          \* unit lower vector
                     \/ kind' = "bounds" /\ g' = Zero /\ h' = Unit(s)          \* unit upper vector
PickGrand == kind' = "bounds" /\ g' = Unit(Grand) /\ h' = Unit(Grand)
PickSmallGame == Mode = "small" /\ \E f \in [NonEmpty -> SmallVals] :
                     kind' = "game" /\ g' = [c \in Coals |-> IF c = 0 THEN 0 ELSE f[c]] /\ h' = Zero
\* boxes lo <= up on a small lattice, every coalition either degenerate or of width one
PickBox == Mode = "box" /\ \E f \in [NonEmpty -> {0, 1, 2}] :
               kind' = "box"
               /\ g' = [c \in Coals |-> IF c = 0 THEN 0 ELSE IF f[c] = 2 THEN 1 ELSE 0]
               /\ h' = [c \in Coals |-> IF c = 0 THEN 0 ELSE IF c = Grand THEN (IF f[c] = 2 THEN 1 ELSE 0) ELSE IF f[c] >= 1 THEN 1 ELSE 0]

Next == kind = "none" /\ (PickUnitGame \/ PickUnitBounds \/ PickGrand \/ PickSmallGame \/ PickBox)
Spec == Init /\ [][Next]_vars

T == Tab([c \in Coals |-> c \in {0, Grand}], g, h)

\* ---- C06
PermEqWeighted == (kind = "game" /\ UsePerm) => \A i \in Players : ShapleyPermN(i, g) = ShapleyWeightedN(i, g)
Efficiency     == kind = "game" => LET s(i) == ShapleyWeightedN(i, g) IN MapThenSumSet(s, Players) = Fact(N) * (g[Grand] - g[0])
Swap(p, q, c)  == LET S == SetOf(c) IN IdOf({IF x = p THEN q ELSE IF x = q THEN p ELSE x : x \in S})
Symmetry       == kind = "game" => \A p, q \in Players :
                     LET gs == [c \in Coals |-> g[Swap(p, q, c)]]
                     IN  ShapleyWeightedN(p, gs) = ShapleyWeightedN(q, g)
NullPlayerZero == kind = "game" => \A i \in Players :
                     (\A c \in Coals : (c & 2^i) = 0 => g[c + 2^i] = g[c]) => ShapleyWeightedN(i, g) = 0

\* ---- C05
Identity == kind \in {"bounds", "box"} => ExploitabilityN(T) = BinomialGapN(T)
NonNegative == kind = "box" => ExploitabilityN(T) >= 0
ZeroIffDegenerate == kind = "box" => (ExploitabilityN(T) = 0 <=> AllDegenerate(T))
\* every completion inside the box gives no player more than the per-player maximum used
\* (Shapley is linear in the completion, so the corners of the box suffice)
Corners == { w \in [Coals -> {0, 1}] : \A c \in Coals : w[c] \in {g[c], h[c]} }
Dominates == kind = "box" => \A w \in Corners : \A i \in Players :
                 ShapleyWeightedN(i, w) <= ShapleyWeightedN(i, MaxGain(i, T))
=============================================================================
