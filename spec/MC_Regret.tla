----------------------------- MODULE MC_Regret -----------------------------
(***************************************************************************)
(* Model-checking instance: construction for every limit, and every        *)
(* history of up to MaxIter iterations with terminal values from a small   *)
(* set on every leaf.                                                      *)
(***************************************************************************)
EXTENDS Regret

CONSTANTS Plus, MaxIter, TermVals, Iterate
VARIABLES R, S, it, lastq
vars == <<R, S, it, lastq>>

Init == R = ZeroTab /\ S = ZeroTab /\ it = 0 /\ lastq = [nd \in Leaves |-> 0]
Step(q) == /\ Iterate /\ it < MaxIter
           /\ R' = NextRegret(R, q, Plus) /\ S' = NextStrategySum(R, S, q, Plus, it + 1)
           /\ it' = it + 1 /\ lastq' = q
Next == \E q \in [Leaves -> TermVals] : Step(q)
Spec == Init /\ [][Next]_vars

ConstructibleInv   == Constructible
RankBijectionInv   == RankBijection
CurrentStrategiesAreDistributions == \A nd \in RMNodes : IsDistribution(Strategy(R, nd)) /\ SupportUnused(Strategy(R, nd), nd)
AverageStrategiesAreDistributions == \A nd \in RMNodes : IsDistribution(AvgStrategy(S, nd)) /\ SupportUnused(AvgStrategy(S, nd), nd)
RegretOrthogonalToStrategy == \A q \in [Leaves -> TermVals] : \A nd \in RMNodes : Orthogonal(R, q, nd)
PlusKeepsRegretNonNegative == Plus => \A nd \in RMNodes : \A x \in Co : RLeq(Zero, R[nd][x])
UsedActionsNeverGainRegret == \A nd \in RMNodes : \A x \in nd : RLeq(R[nd][x], Zero)
=============================================================================
