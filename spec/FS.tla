---------------------------------- MODULE FS ----------------------------------
(***************************************************************************)
(* Physical layer of a save (C20): a PROGRAM -- the sequence of file       *)
(* operations one uninterrupted save performs, as observed on the real     *)
(* code or given as a reference -- run on a tiny file-system model with    *)
(* process death (unflushed buffers lost) or an interrupting exception     *)
(* (unwinds through `with`: open files are flushed and closed) placed      *)
(* after every prefix.                                                     *)
(* Paths: "data" is the results file, anything else a scratch file.        *)
(* Content: "OLD" (the previous file), <<>> (empty), <<1..k>> (the first k *)
(* chunks of the new text); the complete new text is <<1..W>>.             *)
(***************************************************************************)
EXTENDS Integers, Sequences, FiniteSets, TLC, Json, IOUtils

Prog == JsonDeserialize(IOEnv.PROGRAM_FILE)
Program == Prog.ops            \* sequence of [op, path, dst]
Paths == {Program[i].path : i \in 1..Len(Program)} \cup {Program[i].dst : i \in 1..Len(Program)} \cup {"data"}
HadOld == Prog.had_old = 1     \* was there a previous data.json?
Leftover == Prog.leftover      \* chunks of a stale scratch file left behind by an earlier interrupted save (0 = none)

VARIABLES pc, disk, buf, open, wrote, ended, how,
          kAt, kKind        \* prediction mode only: where and how the fault is placed (0 / "none" otherwise)
vars == <<pc, disk, buf, open, wrote, ended, how>>

\* file contents are records so that they are comparable: the old file, no file, or the first chunks of a new text
Absent == [k |-> "absent", s |-> <<>>]
Old    == [k |-> "old", s |-> <<>>]
Text(s) == [k |-> "text", s |-> s]
OldContent == IF HadOld THEN Old ELSE Absent
\* number of chunks the program writes to each path
Total(p) == Cardinality({i \in 1..Len(Program) : Program[i].op = "write" /\ Program[i].path = p})
NewText(p) == Text([i \in 1..Total(p) |-> i])

Init == /\ pc = 1
        /\ disk = [p \in Paths |-> IF p = "data" THEN OldContent
                                   ELSE IF Leftover > 0 THEN Text([i \in 1..Leftover |-> 0 - i]) ELSE Absent]   \* stale chunks are negative ids
        /\ buf = [p \in Paths |-> <<>>] /\ open = {} /\ wrote = [p \in Paths |-> 0]
        /\ ended = FALSE /\ how = "running"

\* flushed chunks overwrite the file from the position reached so far (wrote - buffered); what lies beyond stays
Overwrite(old, pos, new) == [i \in 1..(IF pos + Len(new) > Len(old) THEN pos + Len(new) ELSE Len(old)) |->
                               IF i <= pos THEN old[i] ELSE IF i <= pos + Len(new) THEN new[i - pos] ELSE old[i]]
FlushP(d, b, p) == [d EXCEPT ![p] = Text(Overwrite(d[p].s, wrote[p] - Len(b[p]), b[p]))]

\* one operation of the program
Do == /\ ~ended /\ pc <= Len(Program)
      /\ LET o == Program[pc] IN
         CASE o.op = "open_trunc" -> /\ disk' = [disk EXCEPT ![o.path] = Text(<<>>)] /\ open' = open \cup {o.path}
                                     /\ buf' = [buf EXCEPT ![o.path] = <<>>] /\ wrote' = [wrote EXCEPT ![o.path] = 0]
           [] o.op = "open_excl"  -> /\ disk' = [disk EXCEPT ![o.path] = Text(<<>>)] /\ open' = open \cup {o.path}
                                     /\ buf' = [buf EXCEPT ![o.path] = <<>>] /\ wrote' = [wrote EXCEPT ![o.path] = 0]
           [] o.op = "open_keep"  -> /\ open' = open \cup {o.path} /\ buf' = [buf EXCEPT ![o.path] = <<>>]
                                     /\ wrote' = [wrote EXCEPT ![o.path] = 0] /\ UNCHANGED disk      \* existing content stays; writing starts at offset 0
           [] o.op = "write"      -> /\ buf' = [buf EXCEPT ![o.path] = Append(@, wrote[o.path] + 1)]
                                     /\ wrote' = [wrote EXCEPT ![o.path] = @ + 1] /\ UNCHANGED <<disk, open>>
           [] o.op = "flush"      -> /\ disk' = FlushP(disk, buf, o.path) /\ buf' = [buf EXCEPT ![o.path] = <<>>] /\ UNCHANGED <<open, wrote>>
           [] o.op = "close"      -> /\ disk' = FlushP(disk, buf, o.path) /\ buf' = [buf EXCEPT ![o.path] = <<>>]
                                     /\ open' = open \ {o.path} /\ UNCHANGED wrote
           [] o.op = "rename"     -> /\ disk' = [disk EXCEPT ![o.dst] = disk[o.path], ![o.path] = Absent] /\ UNCHANGED <<buf, open, wrote>>
           [] o.op = "unlink"     -> /\ disk' = [disk EXCEPT ![o.path] = Absent] /\ UNCHANGED <<buf, open, wrote>>
           [] OTHER               -> UNCHANGED <<disk, buf, open, wrote>>       \* reads, stats, fsync: no effect on this model
      /\ pc' = pc + 1 /\ UNCHANGED <<ended, how>>

\* the buffered writer may flush on its own whenever its buffer fills
AutoFlush == /\ ~ended /\ \E p \in open : buf[p] # <<>> /\ disk' = FlushP(disk, buf, p) /\ buf' = [buf EXCEPT ![p] = <<>>]
             /\ UNCHANGED <<pc, open, wrote, ended, how>>

Finish == ~ended /\ pc > Len(Program) /\ ended' = TRUE /\ how' = "completed" /\ UNCHANGED <<pc, disk, buf, open, wrote>>

\* the process dies: nothing buffered in user space reaches the file
Die == /\ ~ended /\ ended' = TRUE /\ how' = "died" /\ buf' = [p \in Paths |-> <<>>] /\ open' = {}
       /\ UNCHANGED <<pc, disk, wrote>>

\* an exception interrupts the save: `with` blocks flush and close what is open
RECURSIVE FlushAll(_, _, _)
FlushAll(d, b, S) == IF S = {} THEN d ELSE LET p == CHOOSE p \in S : TRUE IN FlushAll(FlushP(d, b, p), b, S \ {p})
Raise == /\ ~ended /\ ended' = TRUE /\ how' = "raised" /\ disk' = FlushAll(disk, buf, open)
         /\ buf' = [p \in Paths |-> <<>>] /\ open' = {} /\ UNCHANGED <<pc, wrote>>

Next == (Do \/ AutoFlush \/ Finish \/ Die \/ Raise) /\ UNCHANGED <<kAt, kKind>>
Spec == (Init /\ kAt = 0 /\ kKind = "none") /\ [][Next]_<<vars, kAt, kKind>>

\* after a rename the complete new text is the source file's complete text
CompleteNew == \E p \in Paths : Total(p) > 0 /\ disk["data"] = NewText(p)

\* ---- prediction mode: binds this model to the operating system --------------------------------
\* The fault is placed right before operation kAt (as the injector does) and nothing flushes on its own
\* (the saves used for this are far below the buffer size); the class of data.json afterwards is printed
\* and compared by the harness with what the real run left on disk.
pvars == <<pc, disk, buf, open, wrote, ended, how, kAt, kKind>>
ClassOfData == IF disk["data"] = OldContent THEN "old" ELSE IF \E p \in Paths : Total(p) > 0 /\ disk["data"] = NewText(p) THEN "new" ELSE "other"
PredInit == Init /\ kAt \in 1..(Len(Program) + 1) /\ kKind \in {"die", "raise"}
PredNext == /\ UNCHANGED <<kAt, kKind>>
            /\ IF ended THEN FALSE
               ELSE IF pc = kAt /\ pc <= Len(Program) THEN (IF kKind = "die" THEN Die ELSE Raise)
               ELSE IF pc > Len(Program) THEN Finish
               ELSE Do
PredSpec == PredInit /\ [][PredNext]_pvars
PredPrint == ended => PrintT(<<"PRED", kAt, kKind, ClassOfData>>)

AtomicOrNothing == ended => (disk["data"] = OldContent \/ CompleteNew)
CompletedIsNew  == (ended /\ how = "completed") => CompleteNew
=============================================================================
