------------------------------- MODULE Search -------------------------------
(***************************************************************************)
(* Exhaustive search over reveal sets (gameplay.py, run/best_states.py,    *)
(* meta_game.py) and the expected-greedy search (run/greedy.py).           *)
(***************************************************************************)
EXTENDS Gym

\* the reveal sets the search must enumerate: every set of at most k still-unknown coalitions
RevealSets(U, k) == {S \in SUBSET U : Cardinality(S) <= k}

\* the quantity reported for a reveal set: gap of the incomplete game in which exactly K0 + S is known
\* (apply_action_sequence = set_known_values: everything else is forgotten first; then compute_bounds; then the gap)
GapOf(cfg, K0, S, hid) == GapN(cfg.gap, Compute(cfg.comp, cfg.r, FreshTab(K0 \cup S, hid)))

\* itertools.combinations order over the unknown coalitions in increasing id: by size, then lexicographic
RECURSIVE CombSeq(_, _)
CombSeq(seq, k) ==          \* sequence of all k-subsets (as sets) of the elements of seq, in combinations order
  IF k = 0 THEN << {} >>
  ELSE IF Len(seq) < k THEN << >>
  ELSE LET withHead == CombSeq(Tail(seq), k - 1)
           rest     == CombSeq(Tail(seq), k)
       IN  [i \in 1..Len(withHead) |-> withHead[i] \cup {Head(seq)}] \o rest
RECURSIVE EnumUpTo(_, _, _)
EnumUpTo(seq, i, k) == IF i > k THEN << >> ELSE CombSeq(seq, i) \o EnumUpTo(seq, i + 1, k)
Enumeration(U, k) == EnumUpTo(SetToSortSeq(U, <), 0, k)

\* multiprocessing.Pool.starmap: the task list is cut into chunks of ceil(len / (4 * P)) tasks
Ceil(a, b) == (a + b - 1) \div b
ChunkSize(len, P) == IF len = 0 THEN 1 ELSE Ceil(len, 4 * P)
ChunkOf(i, len, P) == ((i - 1) \div ChunkSize(len, P)) + 1
NumChunks(len, P) == IF len = 0 THEN 0 ELSE Ceil(len, ChunkSize(len, P))
=============================================================================
