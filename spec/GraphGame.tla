----------------------------- MODULE GraphGame -----------------------------
(***************************************************************************)
(* GraphCooperativeGame (graph_game.py) -- beyond the listed properties.   *)
(* A graph game keeps an N x N weight matrix of which only the strict      *)
(* upper triangle counts (the constructor zeroes the diagonal and the      *)
(* lower triangle of its own copy); the value of a coalition is the total  *)
(* weight of the edges inside it.  Negation, addition and copying act on   *)
(* the matrix; equality with another graph game compares the polished      *)
(* matrices, equality with a tabulated game compares the value tables.     *)
(***************************************************************************)
EXTENDS Coal

\* a matrix arrives as a sequence of N rows of N integers (1-based)
Polish(m)   == [i \in 1..N |-> [j \in 1..N |-> IF j > i THEN m[i][j] ELSE 0]]
MatNeg(m)   == [i \in 1..N |-> [j \in 1..N |-> 0 - m[i][j]]]
MatAdd(a, b) == [i \in 1..N |-> [j \in 1..N |-> a[i][j] + b[i][j]]]
\* total weight of the edges {i, j}, i < j, inside coalition c  (players are 0-based, rows 1-based)
EdgesIn(c)  == {<<i, j>> \in SetOf(c) \X SetOf(c) : i < j}
RECURSIVE SumEdges(_, _)
SumEdges(m, E) == IF E = {} THEN 0 ELSE LET e == CHOOSE e \in E : TRUE IN m[e[1] + 1][e[2] + 1] + SumEdges(m, E \ {e})
ValueOf(m, c) == SumEdges(Polish(m), EdgesIn(c))
TableOf(m)  == [c \in Coals |-> ValueOf(m, c)]

\* consequences checked by TLC on small instances (MC_GraphGame): a graph game with non-negative weights is superadditive (indeed
\* supermodular), its empty coalition and singletons are worth 0, and the algebra commutes with tabulation
IsSuperadditiveTab(t) == \A c \in Coals : \A s \in Subs(c) : t[s] + t[c - s] <= t[c]
=============================================================================
