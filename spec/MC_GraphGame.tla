---------------------------- MODULE MC_GraphGame ----------------------------
(* All integer weight matrices over a small weight set (lower triangle and diagonal included: they must not matter). *)
EXTENDS GraphGame
CONSTANT Weights
Wm102 == {-1, 0, 2}     \* named weight sets (a cfg file cannot hold negative literals)
W01   == {0, 1}
Wm101 == {-1, 0, 1}
VARIABLES m, m2
vars == <<m, m2>>
Mats == [1..N -> [1..N -> Weights]]
Init == m \in Mats /\ m2 \in {Polish(x) : x \in Mats}
Next == UNCHANGED vars
Spec == Init /\ [][Next]_vars
LowerTriangleIgnored == TableOf(m) = TableOf(Polish(m))
EmptyAndSingletonsZero == TableOf(m)[0] = 0 /\ \A i \in Players : TableOf(m)[2^i] = 0
NegCommutes == TableOf(MatNeg(Polish(m))) = [c \in Coals |-> 0 - TableOf(m)[c]]
AddCommutes == TableOf(MatAdd(Polish(m), m2)) = [c \in Coals |-> TableOf(m)[c] + TableOf(m2)[c]]
NonNegativeIsSuperadditive == (\A i, j \in 1..N : Polish(m)[i][j] >= 0) => IsSuperadditiveTab(TableOf(m))
=============================================================================
