----------------------------- MODULE MC_VecEnv -----------------------------
(***************************************************************************)
(* Training-time environments (run/model.py: env_generator ->              *)
(* make_vec_env(self.get_env, vec_env_cls, n_envs)) -- beyond the listed   *)
(* properties; the training-time analogue of C12's independence clause.    *)
(*                                                                         *)
(* As in MC_Evaluate a random generator is its stream position: the k-th   *)
(* draw of a seed's stream IS the number k, and a pickled copy continues   *)
(* from the position it was pickled at.                                    *)
(*                                                                         *)
(* "sequential" (DummyVecEnv): the E environments are built one after the  *)
(*   other in the parent, all drawing from the ONE generator owned by the  *)
(*   ModelInstance (2 draws each: constructor + the reset it performs);    *)
(*   every later reset of environment i draws the next number of that one  *)
(*   stream.                                                               *)
(* "parallel" (SubprocVecEnv): every worker process receives a pickled     *)
(*   copy of the bound method ModelInstance.get_env -- i.e. of the         *)
(*   ModelInstance with its generator at the position it had when the      *)
(*   workers were started -- and builds and resets its environment from    *)
(*   ITS OWN copy.                                                         *)
(*                                                                         *)
(* DistinctAcrossEnvs (every two environments hold different hidden games  *)
(* at all times) holds in the sequential mode and is VIOLATED in the       *)
(* parallel mode: all workers replay one stream.  The check expects        *)
(* exactly that, and Trace_VecEnv confirms on the real classes that the    *)
(* stream positions the model predicts are the ones observed.              *)
(***************************************************************************)
EXTENDS Integers, FiniteSets, Sequences, TLC

CONSTANTS E, Kind, MaxResets
VARIABLES parentRng, built, workerRng, game, resets
vars == <<parentRng, built, workerRng, game, resets>>
Envs == 1..E

Init == parentRng = 0 /\ built = 0 /\ workerRng = [i \in Envs |-> 0] /\ game = [i \in Envs |-> 0] /\ resets = 0

\* sequential: environments are built in index order from the shared generator
BuildSeq == /\ Kind = "sequential" /\ built < E
            /\ built' = built + 1 /\ parentRng' = parentRng + 2
            /\ game' = [game EXCEPT ![built + 1] = parentRng + 2]
            /\ UNCHANGED <<workerRng, resets>>
\* parallel: all workers are started from the same parent state; each builds from its own copy (any order)
BuildPar(i) == /\ Kind = "parallel" /\ game[i] = 0
               /\ workerRng' = [workerRng EXCEPT ![i] = parentRng + 2]
               /\ game' = [game EXCEPT ![i] = parentRng + 2]
               /\ built' = built + 1
               /\ UNCHANGED <<parentRng, resets>>
\* an episode of environment i ends (or the vector environment is reset): it draws its next hidden game
Reset(i) == /\ built = E /\ resets < MaxResets /\ resets' = resets + 1
            /\ IF Kind = "sequential"
               THEN /\ parentRng' = parentRng + 1 /\ game' = [game EXCEPT ![i] = parentRng + 1] /\ UNCHANGED workerRng
               ELSE /\ workerRng' = [workerRng EXCEPT ![i] = @ + 1] /\ game' = [game EXCEPT ![i] = workerRng[i] + 1] /\ UNCHANGED parentRng
            /\ UNCHANGED built
Next == BuildSeq \/ (\E i \in Envs : BuildPar(i)) \/ (\E i \in Envs : Reset(i))
Spec == Init /\ [][Next]_vars

\* no two environments ever hold the same draw
DistinctAcrossEnvs == \A i, j \in Envs : (i # j /\ game[i] # 0 /\ game[j] # 0) => game[i] # game[j]
\* no draw is ever used twice over the whole run (sequential mode): hidden games are fresh
TypeOK == game \in [Envs -> Nat] /\ built \in 0..E
=============================================================================
