----------------------------- MODULE Trace_Save -----------------------------
(***************************************************************************)
(* C19: trace validation of save_json / save and of the solve / greedy /   *)
(* best_states commands.  After every call the results file is read back   *)
(* with the library's own readers and logged completely; matrices are      *)
(* logged as (shape, flat list of tokens) where a token is one float bit   *)
(* pattern (all NaNs one token), so equality of tokens is bit equality.    *)
(***************************************************************************)
EXTENDS ResultsFile, Json, IOUtils

CONSTANT Props
Batch  == JsonDeserialize(IOEnv.TRACE_FILE)
Traces == Batch.traces
VARIABLES tid, l
tvars == <<tid, l>>

Fail(name, cond) == IF cond THEN {} ELSE {<<"C19", name>>}

Entry(r)   == [dshape |-> r.dshape, dflat |-> r.dflat, ashape |-> r.ashape, aflat |-> r.aflat]
FileFn(fs) == [nm \in {fs[i].name : i \in 1..Len(fs)} |-> Entry(fs[CHOOSE i \in 1..Len(fs) : fs[i].name = nm])]
MetaOK(fs, nm) == \A i \in 1..Len(fs) : fs[i].name = nm => fs[i].meta_ok = 1
FileAt(T, i) == IF i = 0 THEN FileFn(T.init) ELSE FileFn(T.events[i].file)

Failures(T, i) ==
  LET e    == T.events[i]
      pre  == FileAt(T, i - 1)
      post == FileAt(T, i)
      isnew == e.name \notin DOMAIN pre
  IN
     Fail("NoUnexpectedException", e.exc = "" \/ (e.op = "save" /\ ~isnew /\ e.exc = "FileExistsError"))
  \cup Fail("FileReadable", e.readable = 1)
  \cup (IF e.readable # 1 THEN {} ELSE
       Fail("EarlierEntriesUnchanged", EarlierUnchanged(pre, post))
  \cup Fail("ExistingNameChangesNothing", (~isnew) => post = pre)
  \cup Fail("NewNameAddsExactlyThatEntry", isnew => (DOMAIN post = DOMAIN pre \cup {e.name}))
  \cup Fail("RefinesSave", post = Save(pre, e.name, Entry(e.entry)))
  \cup Fail("MatricesRoundTripBitExactly", (isnew /\ e.name \in DOMAIN post) =>
              (post[e.name].dflat = e.entry.dflat /\ post[e.name].aflat = e.entry.aflat))
  \cup Fail("ShapesPreserved", (isnew /\ e.name \in DOMAIN post) =>
              (post[e.name].dshape = e.entry.dshape /\ post[e.name].ashape = e.entry.ashape))
  \cup Fail("MetadataUpToStringification", (isnew /\ e.name \in DOMAIN post) => MetaOK(e.file, e.name))
  \cup Fail("SavedMatricesAreWhatTheCommandProduced", e.produced_same # 0))

TraceInit == tid \in 1..Len(Traces) /\ l = 0
TraceNext == LET T == Traces[tid] IN
             /\ l < Len(T.events) /\ l' = l + 1 /\ tid' = tid
             /\ \A f \in Failures(T, l + 1) : PrintT(<<"VERDICT", T.tid, l + 1, f[1], f[2], 0>>)
TraceSpec == TraceInit /\ [][TraceNext]_tvars
TotalStates == LET RECURSIVE sum(_) sum(i) == IF i = 0 THEN 0 ELSE 1 + Len(Traces[i].events) + sum(i - 1) IN sum(Len(Traces))
AllConsumed == TLCGet("distinct") = TotalStates
=============================================================================
