------------------------------ MODULE Rational ------------------------------
(* exact rationals <<num, den>>, den > 0, reduced *)
EXTENDS Integers, FiniteSets, Sequences, TLC

RECURSIVE GCD(_, _)
GCD(a, b) == IF b = 0 THEN a ELSE GCD(b, a % b)
AbsI(x) == IF x < 0 THEN -x ELSE x
Norm(n, d) == LET s == IF d < 0 THEN -1 ELSE 1
                  g == GCD(AbsI(n), AbsI(d))
              IN  IF n = 0 THEN <<0, 1>> ELSE <<(s * n) \div g, (s * d) \div g>>
Zero == <<0, 1>>
One  == <<1, 1>>
RInt(k) == <<k, 1>>
RAdd(a, b) == Norm(a[1] * b[2] + b[1] * a[2], a[2] * b[2])
RSub(a, b) == Norm(a[1] * b[2] - b[1] * a[2], a[2] * b[2])
RMul(a, b) == Norm(a[1] * b[1], a[2] * b[2])
RDiv(a, b) == Norm(a[1] * b[2], a[2] * b[1])
RPos(a)    == IF a[1] > 0 THEN a ELSE Zero
RLeq(a, b) == a[1] * b[2] <= b[1] * a[2]
RECURSIVE RSumOver(_, _)
RSumOver(f, S) == IF S = {} THEN Zero ELSE LET x == CHOOSE x \in S : TRUE IN RAdd(f[x], RSumOver(f, S \ {x}))
=============================================================================
