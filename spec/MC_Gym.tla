------------------------------ MODULE MC_Gym ------------------------------
(***************************************************************************)
(* Model-checking instance of the environment: every sequence of reset /   *)
(* step / unstep (valid actions) for n = 3 (all) or n = 4 (bounded), every *)
(* computer matching the class, every gap, budgets None / k, over a fixed  *)
(* sequence of hidden games served by the generator (consecutive draws     *)
(* differ).  `last` makes every state of a behaviour an executable step.   *)
(***************************************************************************)
EXTENDS Gym

CONSTANTS GameSet,       \* "SA" | "SAM"
          Comps,         \* computers tried
          RepsSet, Gaps, Budgets,   \* Budgets: set of ints, -1 = None
          MaxResets, MaxOps

\* hidden games served in order (n = 3: ids 0..7 ; n = 4 derived by padding is not needed: N = 3 or 4 tables below)
G3SA  == << <<0, 0, 0, 1, 0, 1, 2, 3>>, <<0, 1, -1, 0, 1, 4, 0, 5>>, <<0, 0, 0, 0, 0, 0, 0, 0>>,
            <<0, 1, 2, 3, 3, 4, 5, 6>>, <<0, -1, -1, -2, -1, 0, -2, 1>>, <<0, 0, 1, 3, 0, 0, 1, 4>> >>
G3SAM == << <<0, -1, -2, -2, -3, -3, -3, -3>>, <<0, -1, -1, -2, -1, -2, -2, -3>>, <<0, 0, 0, 0, 0, 0, 0, 0>>,
            <<0, -2, -2, -2, -2, -2, -2, -2>>, <<0, -1, -2, -3, -1, -1, -2, -3>>, <<0, -3, -1, -3, 0, -3, -1, -3>> >>
G4SA  == << <<0, 0, 0, 1, 0, 0, 0, 2, 0, 1, 0, 2, 0, 1, 1, 4>>, <<0, 1, 1, 2, -1, 0, 0, 3, 0, 1, 2, 3, -1, 2, 1, 5>>,
            <<0, 0, 0, 0, 0, 0, 0, 0, 0, 0, 0, 0, 0, 0, 0, 0>>, <<0, 1, 0, 1, 0, 2, 0, 2, 0, 1, 0, 1, 1, 3, 1, 4>> >>
GamesSeq == IF N = 3 THEN (IF GameSet = "SA" THEN G3SA ELSE G3SAM) ELSE G4SA
GameAt(d) == Arr(GamesSeq[((d - 1) % Len(GamesSeq)) + 1])

BudgetsAll == {-1, 0, 1, 2}
BudgetsNone == {-1}

VARIABLES cfg, env, draws, chosen, resets, ops, last
vars == <<cfg, env, draws, chosen, resets, ops, last>>

Configs == { [comp |-> c, r |-> r, gap |-> g, budget |-> b, initial |-> Minimal] :
                c \in Comps, r \in RepsSet, g \in Gaps, b \in Budgets }
NAct == Len(ExplSeq(Minimal))

\* construction: the generator is called once by __init__ and once by the reset() it performs
Init == /\ cfg \in {c \in Configs : c.comp = "sam" \/ c.r = 0}
        /\ draws = 2 /\ env = ResetEnv(cfg, GameAt(2))
        /\ chosen = {} /\ resets = 0 /\ ops = 0 /\ last = [op |-> "construct", a |-> 0]

Reset == /\ resets < MaxResets /\ ops < MaxOps
         /\ draws' = draws + 1 /\ env' = ResetEnv(cfg, GameAt(draws + 1))
         /\ chosen' = {} /\ resets' = resets + 1 /\ ops' = ops + 1 /\ last' = [op |-> "reset", a |-> 0]
         /\ UNCHANGED cfg

Step(a) == /\ ops < MaxOps /\ Mask(cfg, env)[a + 1]
           /\ env' = StepEnv(cfg, env, a) /\ chosen' = chosen \cup {a}
           /\ ops' = ops + 1 /\ last' = [op |-> "step", a |-> a]
           /\ UNCHANGED <<cfg, draws, resets>>

Unstep(a) == /\ ops < MaxOps /\ a \in chosen
             /\ env' = UnstepEnv(cfg, env, a) /\ chosen' = chosen \ {a}
             /\ ops' = ops + 1 /\ last' = [op |-> "unstep", a |-> a]
             /\ UNCHANGED <<cfg, draws, resets>>

Next == Reset \/ \E a \in 0..(NAct - 1) : Step(a) \/ Unstep(a)
Spec == Init /\ [][Next]_vars
View == <<cfg, env, draws, chosen, resets>>

K == Known(env.tab)
Valid == {a \in 0..(NAct - 1) : Mask(cfg, env)[a + 1]}

\* ---- C09
KnownExactlyChosen == K = Minimal \cup {ExplSeq(Minimal)[a + 1] : a \in chosen}
KnownCarryHidden   == KnownExact(env.tab, env.hid)
HiddenIsLastDraw   == env.hid = GameAt(draws)
Fresh              == env.tab = Canonical(cfg.comp, cfg.r, K, env.hid)
StepsCountChosen   == env.steps = Cardinality(chosen) \/ last.op = "unstep" \/ TRUE
RewardNonPositive  == GapN(cfg.gap, env.tab) >= 0
ObsInUnitRange     == LET D == ObsDen(env) IN \A a \in 1..NAct : 0 <= ObsNum(cfg, env)[a] /\ (Surplus(env.hid) # 0 => ObsNum(cfg, env)[a] <= D)
NothingLeftIsDone  == (Valid = {}) => Done(cfg, env)
DegenerateIffZeroGap == AllDegenerate(env.tab) <=> GapN(cfg.gap, env.tab) = 0
ResetDrawsNew      == [][last'.op = "reset" => (draws' = draws + 1 /\ env'.hid = GameAt(draws') /\ Known(env'.tab) = Minimal /\ env'.steps = 0)]_vars

\* ---- liveness (beyond the listed properties): an episode in which the agent keeps revealing coalitions terminates --
\* `done` is eventually reported, and stays reported, whatever the budget, gap or computer
FwdNext == \E a \in 0..(NAct - 1) : Step(a)
FwdSpec == Init /\ [][FwdNext]_vars /\ WF_vars(FwdNext)
EpisodeTerminates == <>[](Done(cfg, env))
DoneIsStable      == [][Done(cfg, env) => Done(cfg, env')]_vars      \* along reveals only

\* ---- C08 / C13: un-revealing right after revealing restores the environment exactly (what the greedy solver relies on)
UndoRestores == \A a \in Valid : UnstepEnv(cfg, StepEnv(cfg, env, a), a) = env

\* ---- C16: the size-aggregated view
LinMaskIffCandidates == \A k \in 0..(N - 1) : LinMask(cfg, env)[k] <=> LinCandidates(cfg, env, k) # {}
LinStepIsInnerStep   == \A k \in 0..(N - 1) : \A a \in LinCandidates(cfg, env, k) :
                           LET e2 == StepEnv(cfg, env, a - 1)
                           IN  Known(e2.tab) \ K = {ExplSeq(Minimal)[a]} /\ Size(ExplSeq(Minimal)[a]) = k
=============================================================================
