SPECIFICATION PredSpec
INVARIANT PredPrint
CHECK_DEADLOCK FALSE
