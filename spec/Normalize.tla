----------------------------- MODULE Normalize -----------------------------
(***************************************************************************)
(* Normalisation (normalize.py).  Values are integers (scaled); a          *)
(* normalised game is kept as the pair (numerators v0, denominator D):     *)
(* normalised value of S = v0[S] / D, or v0[S] itself when D = 0 -- the    *)
(* code's exact-zero guard, named here as the deliberate deviation it is.  *)
(***************************************************************************)
EXTENDS GameTheory

SingSum(v, c) == SumOver([i \in Players |-> v[2^i]], SetOf(c))

\* definitional: subtract the singleton values
ZeroNorm(v) == TLCEval([c \in Coals |-> v[c] - SingSum(v, c)])
Surplus(v)  == ZeroNorm(v)[Grand]

\* algorithmic: the code's loop -- players in order; every coalition containing the player loses the
\* player's CURRENT singleton value (read before the loop over coalitions starts)
RECURSIVE SubtractFrom(_, _)
SubtractFrom(i, v) ==
  IF i = N THEN v
  ELSE LET sv == v[2^i]
       IN  SubtractFrom(i + 1, TLCEval([c \in Coals |-> IF (c & 2^i) # 0 THEN v[c] - sv ELSE v[c]]))
ZeroNormAlg(v) == SubtractFrom(0, v)

ExactZeroGuard(D) == D = 0          \* `if not grand_coalition_value: return`

\* norm info returned to the caller: (surplus, singleton values)
NormInfo(v) == [surplus |-> Surplus(v), singles |-> [i \in Players |-> v[2^i]]]

\* denormalise: v[S] = x[S] * surplus + sum of singletons; on numerators: (v0[S] / D) * D + singles
Denorm(v0, info) == [c \in Coals |-> v0[c] + SumOver(info.singles, SetOf(c))]

\* theorems (checked as invariants on lattice games)
Sing0(v0)        == \A i \in Players : v0[2^i] = 0
InUnitRange(v0)  == LET D == v0[Grand] IN \A c \in Coals : 0 <= v0[c] /\ v0[c] <= D
StillSA(v0)      == IsSuperadditive(v0)           \* division by D > 0 preserves it

\* graph games: value = sum of the weights of the edges inside the coalition (upper triangle, i < j)
GraphValue(w, c) == LET E == {e \in SetOf(c) \X SetOf(c) : e[1] < e[2]}
                        wt(e) == w[e[1]][e[2]]
                    IN  MapThenSumSet(wt, E)
GraphGame(w)     == [c \in Coals |-> GraphValue(w, c)]
=============================================================================
