----------------------------- MODULE Trace_Gym -----------------------------
(***************************************************************************)
(* Trace validation of the environments (ICG_Gym, ICG_Gym_Linear) and of   *)
(* the built-in solvers queried on them.  One event per public call:       *)
(* construct / reset / step / unstep / solve / lin_reset / lin_step.       *)
(* Each event carries what the call returned and the environment's public  *)
(* state afterwards; the pre-state of an event is the logged post-state of *)
(* the previous one.  The ghost `chosen` (actions stepped and not undone   *)
(* since the last reset) is carried by the specification alone.            *)
(* Clauses: C09 (environment), C08 (undo), C13 (solvers), C16 (linear).    *)
(***************************************************************************)
EXTENDS Gym, Json, IOUtils

CONSTANT Props
Batch  == JsonDeserialize(IOEnv.TRACE_FILE)
Traces == Batch.traces

VARIABLES tid, l, chosen
tvars == <<tid, l, chosen>>

TabOf(o)  == Tab([c \in Coals |-> o.k[c + 1] = 1], Arr(o.lo), Arr(o.up))
EnvOf(o)  == Env(TabOf(o), o.steps, Arr(o.hid))
CfgOf(T)  == [comp |-> T.comp, r |-> T.r, gap |-> T.gap, budget |-> T.budget,
              initial |-> {T.initial[i] : i \in 1..Len(T.initial)}]
NA(T)     == Len(ExplSeq(CfgOf(T).initial))

Fail(p, name, cond) == IF p \in Props THEN (IF cond THEN {} ELSE {<<p, name>>}) ELSE {}
InIv(x, iv) == iv[1] <= x /\ x <= iv[2]
Close(a, b, tol) == a - b <= tol /\ b - a <= tol

InClass(T) == IF T.comp = "sam" THEN T.cls = "SAM" ELSE T.cls \in {"SA", "SAM"}
FactN == Fact(N)

\* ---- a returned / observed gap value against the logged table ------------------------------
GapOK(T, t, g) ==
  IF T.mode = "exact"
  THEN InIv(GapN(T.gap, t), g)
  ELSE CASE T.gap = "exploitability" -> Close(g[1] * FactN, ExploitabilityN(t), (N + 2) * FactN)
         [] T.gap = "l1_norm"        -> Close(g[1], L1(t), NC + 1)
         [] T.gap = "linf_norm"      -> Close(g[1], LInf(t), 2)
         [] T.gap = "l2_norm"        -> LInf(t) - 2 <= g[1] /\ g[1] <= L1(t) + NC + 1

\* ---- a returned observation against the hidden game and the logged knowledge --------------
ObsOK(T, cfg, env, obs) ==
  LET num == ObsNum(cfg, env)
      D   == ObsDen(env)
  IN  /\ Len(obs) = NA(T)
      /\ \A a \in 1..NA(T) :
           IF Mask(cfg, env)[a] THEN obs[a][1] = 0 /\ obs[a][2] = 0         \* unknown position shows 0
           ELSE IF T.mode = "exact" THEN InIv(num[a], obs[a])
           ELSE (Abs(D) < 64 \/ Close(obs[a][1] * D, num[a] * 1024, Abs(D) + 2048 * (N + 2)))

\* ---- the environment's public state after any call --------------------------------------------
StateClauses(T, e, ch) ==
  LET cfg == CfgOf(T)
      env == EnvOf(e.env)
      t   == env.tab
      ex  == ExplSeq(cfg.initial)
      exact == T.mode = "exact"
  IN   Fail("C09", "KnownExactlyInitialPlusChosen", Known(t) = cfg.initial \cup {ex[a + 1] : a \in ch})
  \cup Fail("C09", "KnownCarryHiddenValues", KnownExact(t, env.hid))
  \cup Fail("C09", "HiddenIsLastDrawnGame", e.env.draws >= 1 /\ e.env.draws <= Len(T.games) /\ e.env.hid = T.games[e.env.draws])
  \cup Fail("C09", "BoundsFreshlyRecomputed", exact => t = Canonical(cfg.comp, cfg.r, Known(t), env.hid))
  \* C08: whatever history of steps and (non-LIFO) unsteps led here, the bounds are those of the knowledge alone
  \cup Fail("C08", "BoundsAreFunctionOfKnowledgeAfterAnyUndoOrder", exact => t = Canonical(cfg.comp, cfg.r, Known(t), env.hid))
  \cup Fail("C09", "BoundsFreshlyRecomputedQuant",
            ((~exact) /\ cfg.comp # "sam") =>
               LET w == Canonical(cfg.comp, cfg.r, Known(t), env.hid)
               IN  \A c \in Coals : Close(t.lo[c], w.lo[c], T.tol2) /\ Close(t.up[c], w.up[c], T.tol2))
  \cup Fail("C09", "MaskMarksUnknownExplorable",
            Len(e.env.mask) = NA(T) /\ \A a \in 1..NA(T) : (e.env.mask[a] = 1) <=> Mask(cfg, env)[a])
  \cup Fail("C09", "StateShowsNormalisedHiddenValueOrZero", ObsOK(T, cfg, env, e.env.obs))
  \cup Fail("C09", "RewardIsNegatedGap", GapOK(T, t, e.env.gap))
  \cup Fail("C09", "ObserversLeaveEnvironmentUntouched", e.env.pure = 1)
  \cup Fail("C09", "RewardNeverPositive", InClass(T) => e.env.gap[2] >= 0 - T.tol)
  \* on float games "all intervals degenerate" is read off the raw table by the driver (deg); on exact games it is recomputed
  \cup Fail("C09", "DegenerateFlagMatchesTable", exact => ((e.env.deg = 1) <=> AllDegenerate(t)))
  \cup Fail("C09", "DoneIffBudgetOrNothingLeftOrDegenerate", (e.env.done = 1) <=> DoneBy(cfg, env, e.env.deg = 1))

\* ---- what a call returned -----------------------------------------------------------------
ReturnClauses(T, e) ==
  LET cfg == CfgOf(T)
      env == EnvOf(e.env)
  IN   Fail("C09", "ReturnedObservation", ObsOK(T, cfg, env, e.ret_obs))
  \cup Fail("C09", "ReturnedRewardIsNegatedGap", e.op = "reset" \/ GapOK(T, env.tab, e.ret_gap))
  \cup Fail("C09", "ReturnedDone", e.op = "reset" \/ ((e.ret_done = 1) <=> DoneBy(cfg, env, e.env.deg = 1)))
  \cup Fail("C09", "InfoReportsRevealedCoalition",
            e.op = "reset" \/ e.ret_info = ExplSeq(cfg.initial)[e.a + 1])

\* ---- transition clauses (pre -> post) -------------------------------------------------------
StepClauses(T, i, ch) ==
  LET e   == T.events[i]
      cfg == CfgOf(T)
      pre == EnvOf(T.events[i - 1].env)
      post == EnvOf(e.env)
      pd  == T.events[i - 1].env.draws
      exact == T.mode = "exact"
  IN
  CASE e.op = "reset" ->
            Fail("C09", "ResetDrawsANewGame", e.env.draws > pd)        \* how many generator calls a reset makes is mechanism, not property
       \cup Fail("C09", "ResetForgetsAllButInitial", Known(post.tab) = cfg.initial /\ post.steps = 0)
       \cup Fail("C09", "NoException", e.exc = "")
       \cup Fail("C09", "ResetRefinesSpec", exact => post = ResetEnv(cfg, post.hid))
    [] e.op = "step" ->
            Fail("C09", "StepOutcome", e.exc = (IF StepOutcome(cfg, pre, e.a) = "ok" THEN "" ELSE StepOutcome(cfg, pre, e.a)))
       \cup Fail("C09", "StepKeepsGame", e.env.draws = pd /\ post.hid = pre.hid)
       \cup Fail("C09", "StepCountsOne", e.exc = "" => post.steps = pre.steps + 1)
       \cup Fail("C09", "StepRefinesSpec", (exact /\ e.exc = "") => post = StepEnv(cfg, pre, e.a))
    [] e.op = "unstep" ->
            Fail("C09", "UnstepOutcome", e.exc = (IF UnstepOutcome(cfg, pre, e.a) = "ok" THEN "" ELSE UnstepOutcome(cfg, pre, e.a)))
       \cup Fail("C09", "UnstepKeepsGame", e.env.draws = pd /\ post.hid = pre.hid)
       \cup Fail("C09", "UnstepCountsBack", e.exc = "" => post.steps = pre.steps - 1)
       \cup Fail("C09", "UnstepRefinesSpec", (exact /\ e.exc = "") => post = UnstepEnv(cfg, pre, e.a))
       \* C08: un-revealing right after revealing restores table, observation, reward, mask, counter exactly
       \cup Fail("C08", "UndoRestoresExactly",
                 (e.exc = "" /\ i >= 3 /\ T.events[i - 1].op = "step" /\ T.events[i - 1].a = e.a /\ T.events[i - 1].exc = "") =>
                    /\ e.undo_bits # 0
                    /\ e.env = T.events[i - 2].env)
    [] e.op = "solve" ->
            LET m    == Mask(cfg, pre)
                V    == {a \in 1..NA(T) : m[a]}
                rk   == e.ranks                                  \* dense rank of the reward each valid action yields (probed by the driver)
                best == IF V = {} THEN {} ELSE
                        CASE e.solver = "greedy"       -> {Min({a \in V : \A b \in V : rk[a] >= rk[b]})}
                          [] e.solver = "greedy_worst" -> {Min({a \in V : \A b \in V : rk[a] <= rk[b]})}
                          [] e.solver = "largest"      -> {Min({a \in V : \A b \in V : SizesOf(cfg)[a] >= SizesOf(cfg)[b]})}
                          [] OTHER                     -> V
            IN   Fail("C13", "SolverNoException", e.exc = "")
            \cup Fail("C13", "ChoiceIsValidAndFollowsRule", (e.exc = "" /\ V # {}) => (e.a + 1) \in best)
            \cup Fail("C13", "EnvironmentLeftUntouched", e.undo_bits = 1 /\ e.env = T.events[i - 1].env)
            \cup Fail("C13", "ProbedRewardsAgreeWithSpecOrder",
                      (T.mode = "exact" /\ InClass(T) /\ V # {}) =>
                          \A a, b \in V : (GapN(T.gap, StepEnv(cfg, pre, a - 1).tab) < GapN(T.gap, StepEnv(cfg, pre, b - 1).tab)) => rk[a] > rk[b])
    [] e.op = "lin_step" ->
            LET newk == Known(post.tab) \ Known(pre.tab)
                ex   == ExplSeq(cfg.initial)
            IN   Fail("C16", "LinStepOutcome", (e.exc = "") <=> (LinCandidates(cfg, pre, e.a) # {}))
            \cup Fail("C16", "RevealsExactlyOneUnknownOfThatSize",
                      e.exc = "" => (Cardinality(newk) = 1 /\ \A c \in newk : Size(c) = e.a /\ c \in Coals \ cfg.initial
                                      /\ Known(pre.tab) \subseteq Known(post.tab)))
            \cup Fail("C16", "ReportsRevealedCoalition", e.exc = "" => e.ret_info \in newk)
            \cup Fail("C16", "IsAnInnerStepOfAnAllowedAction",
                      (e.exc = "" /\ T.mode = "exact") =>
                          \E a \in LinCandidates(cfg, pre, e.a) : post = StepEnv(cfg, pre, a - 1))
            \cup Fail("C16", "ReturnsInnerRewardAndDone",
                      e.exc = "" => (GapOK(T, post.tab, e.ret_gap) /\ ((e.ret_done = 1) <=> DoneBy(cfg, post, e.env.deg = 1)) /\ e.ret_gap = e.env.gap))
    [] OTHER -> {}

\* ---- the linear view of any state -------------------------------------------------------
SumBySize(T, cfg, xs, k) ==       \* sum of xs[a] over explorable actions of size k
  LET S == {a \in 1..NA(T) : SizesOf(cfg)[a] = k}
      f(a) == xs[a]
  IN  MapThenSumSet(f, S)
LinearClauses(T, e) ==
  LET cfg == CfgOf(T)
      env == EnvOf(e.env)
  IN   Fail("C16", "LinearMaskIffSomeUnknownOfSize",
            Len(e.lin_mask) = N /\ \A k \in 0..(N - 1) : (e.lin_mask[k + 1] = 1) <=> LinMask(cfg, env)[k])
  \cup Fail("C16", "LinearRewardAndDoneAreTheInnerOnes", e.lin_same = 1)
  \cup Fail("C16", "LinearObservationHasLengthN", Len(e.lin_obs) = N)
  \cup Fail("C16", "LinearObservationIsPerSizeSum",
            Len(e.lin_obs) = N =>
              \A k \in 0..(N - 1) :
                 LET lo == SumBySize(T, cfg, [a \in 1..NA(T) |-> e.env.obs[a][1]], k)
                     hi == SumBySize(T, cfg, [a \in 1..NA(T) |-> e.env.obs[a][2]], k)
                 IN  lo - T.lintol <= e.lin_obs[k + 1][2] /\ e.lin_obs[k + 1][1] <= hi + T.lintol)

\* an event whose outputs could not be logged (values outside the exact domain from exact inputs) carries no usable state:
\* it fails NoException for every property evaluated, and neither it nor its successor is compared with the specification
Usable(e) == e.exc # "UnloggableOutput"
Failures(T, i, ch2) ==
  LET e == T.events[i] IN
  IF ~Usable(e) THEN UNION {Fail(p, "NoException_UnloggableOutput", FALSE) : p \in Props}
  ELSE
     (IF e.exc = "" \/ e.op \in {"step", "unstep", "lin_step"} THEN StateClauses(T, e, ch2) ELSE Fail("C09", "NoException", FALSE))
  \cup (IF e.op \in {"reset", "step", "unstep"} /\ e.exc = "" THEN ReturnClauses(T, e) ELSE {})
  \cup (IF i >= 2 /\ ~Usable(T.events[i - 1]) THEN {} ELSE IF i >= 2 THEN StepClauses(T, i, ch2) ELSE
          Fail("C09", "ConstructedEnvironmentIsFreshlyReset", e.op = "construct" /\ e.env.draws >= 1 /\ e.env.steps = 0))
  \cup (IF T.linear = 1 THEN LinearClauses(T, e) ELSE {})

NextChosen(T, e, ch, pre) ==
  CASE e.op \in {"reset", "construct", "lin_reset"} -> {}
    [] e.op = "step" /\ e.exc = ""   -> ch \cup {e.a}
    [] e.op = "unstep" /\ e.exc = "" -> ch \ {e.a}
    [] e.op = "lin_step" /\ e.exc = "" ->
          \* the action index of the coalition that became known
          ch \cup {a - 1 : a \in {a \in 1..NA(T) : e.env.k[ExplSeq(CfgOf(T).initial)[a] + 1] = 1 /\ pre.k[ExplSeq(CfgOf(T).initial)[a] + 1] = 0}}
    [] OTHER -> ch

TraceInit == tid \in 1..Len(Traces) /\ l = 0 /\ chosen = {}

TraceNext ==
  LET T == Traces[tid]
      e == T.events[l + 1]
      ch2 == NextChosen(T, e, chosen, IF l = 0 THEN e.env ELSE T.events[l].env)
  IN
  /\ l < Len(T.events)
  /\ l' = l + 1 /\ tid' = tid
  /\ chosen' = ch2
  /\ \A f \in Failures(T, l + 1, ch2) : PrintT(<<"VERDICT", T.tid, l + 1, f[1], f[2], 0>>)

TraceSpec == TraceInit /\ [][TraceNext]_tvars

TotalStates == LET RECURSIVE sum(_) sum(i) == IF i = 0 THEN 0 ELSE 1 + Len(Traces[i].events) + sum(i - 1) IN sum(Len(Traces))
AllConsumed == TLCGet("distinct") = TotalStates
=============================================================================
