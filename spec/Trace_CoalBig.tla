---------------------------- MODULE Trace_CoalBig ----------------------------
(***************************************************************************)
(* C18 for player counts beyond the tables of Coal.tla (N up to 30, ids    *)
(* below 2^30): the per-coalition, pair and player operations of both      *)
(* representations against the finite-set meaning, without the 2^N x 2^N   *)
(* sub-/super-coalition tables.  Same clauses as Trace_Coalitions, same    *)
(* record kinds ("coal" without its sub-/super-coalition lists).           *)
(***************************************************************************)
EXTENDS Integers, FiniteSets, Sequences, SequencesExt, TLC, Json, IOUtils

CONSTANTS N, Props
Batch  == JsonDeserialize(IOEnv.TRACE_FILE)
Traces == Batch.traces
VARIABLES tid, l
tvars == <<tid, l>>

Players == 0..(N - 1)
SetOf(c) == {i \in Players : (c \div (2^i)) % 2 = 1}
Fail(name, cond) == IF cond THEN {} ELSE {<<"C18", name>>}
SortedPlayers(c) == SetToSortSeq(SetOf(c), <)
Bool(x) == x = 1

Failures(T) ==
  CASE T.kind = "coal" ->
         LET c == T.c IN
            Fail("NoException", T.exc = "")
       \cup (IF T.exc # "" THEN {} ELSE
            Fail("PlayersListed", T.players = SortedPlayers(c) /\ T.id_players = SortedPlayers(c))
       \cup Fail("Size", T.size = Cardinality(SetOf(c)) /\ T.id_size = Cardinality(SetOf(c)))
       \cup Fail("Complement", SetOf(T.compl) = Players \ SetOf(c))
       \cup Fail("FromPlayersRoundTrip", T.from_players = c))
    [] T.kind = "pair" ->
         LET A == SetOf(T.a)  B == SetOf(T.b) IN
            Fail("NoException", T.exc = "")
       \cup (IF T.exc # "" THEN {} ELSE
            Fail("Union", SetOf(T.or) = A \cup B)
       \cup Fail("Intersection", SetOf(T.and) = A \cap B)
       \cup Fail("Difference", SetOf(T.sub) = A \ B)
       \cup Fail("Containment", Bool(T.contains) <=> (B \subseteq A))
       \cup Fail("Disjointness", Bool(T.disjoint) <=> (A \cap B = {}))
       \cup Fail("Equality", Bool(T.eq) <=> (A = B)))
    [] T.kind = "player" ->
         LET A == SetOf(T.a) IN
            Fail("NoException", T.exc = "")
       \cup (IF T.exc # "" THEN {} ELSE
            Fail("AddPlayer", SetOf(T.add) = A \cup {T.i})
       \cup Fail("RemovePlayer", SetOf(T.rem) = A \ {T.i})
       \cup Fail("Membership", Bool(T.has) <=> (T.i \in A))
       \cup Fail("UnionWithPlayer", SetOf(T.orp) = A \cup {T.i})
       \cup Fail("IntersectionWithPlayer", SetOf(T.andp) = A \cap {T.i}))
    [] OTHER -> {}

TraceInit == tid \in 1..Len(Traces) /\ l = 0
TraceNext == /\ l = 0 /\ l' = 1 /\ tid' = tid
             /\ \A f \in Failures(Traces[tid]) : PrintT(<<"VERDICT", Traces[tid].tid, 1, f[1], f[2], 0>>)
TraceSpec == TraceInit /\ [][TraceNext]_tvars
AllConsumed == TLCGet("distinct") = 2 * Len(Traces)
=============================================================================
