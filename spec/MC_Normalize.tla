---------------------------- MODULE MC_Normalize ----------------------------
(***************************************************************************)
(* C15 on the specification: for every superadditive lattice game (built   *)
(* by size) and every graph game with small integer weights, the           *)
(* normalisation theorems hold and the code's subtraction loop computes    *)
(* the definitional zero-normalisation.                                    *)
(***************************************************************************)
EXTENDS Normalize, SequencesExt

CONSTANTS SingVals, Slacks, Weights, DoGraphs
Vm1to1 == {-1, 0, 1}
Vm2to2 == (-2)..2
V0to2 == 0..2
V0to1 == 0..1

VARIABLES stage, pos, v, w
vars == <<stage, pos, v, w>>

Order == LET RECURSIVE bySize(_)
             bySize(k) == IF k > N THEN <<>> ELSE SetToSortSeq(OfSize(k), <) \o bySize(k + 1)
         IN bySize(1)
MaxSplit(g, c) == Max({ g[s] + g[c - s] : s \in ProperSubs(c) })
Pairs == {p \in Players \X Players : p[1] < p[2]}
NoGraph == [i \in Players |-> [j \in Players |-> 0]]

Init == stage = "grow" /\ pos = 1 /\ v = [c \in Coals |-> 0] /\ w = NoGraph
Grow == /\ stage = "grow" /\ pos <= Len(Order)
        /\ \E x \in (IF Size(Order[pos]) = 1 THEN SingVals ELSE { MaxSplit(v, Order[pos]) + s : s \in Slacks }) :
              v' = [v EXCEPT ![Order[pos]] = x]
        /\ pos' = pos + 1 /\ UNCHANGED <<stage, w>>
Finish == stage = "grow" /\ pos > Len(Order) /\ stage' = "table" /\ UNCHANGED <<pos, v, w>>
\* graph games: weights chosen pair by pair
GraphStart == DoGraphs /\ stage = "grow" /\ pos = 1 /\ stage' = "graphgrow" /\ UNCHANGED <<pos, v, w>>
GraphGrow == /\ stage = "graphgrow"
             /\ LET ps == SetToSortSeq(Pairs, LAMBDA a, b : a[1] < b[1] \/ (a[1] = b[1] /\ a[2] < b[2])) IN
                IF pos <= Len(ps)
                THEN \E x \in Weights : w' = [w EXCEPT ![ps[pos][1]][ps[pos][2]] = x] /\ pos' = pos + 1 /\ UNCHANGED <<stage, v>>
                ELSE stage' = "graph" /\ v' = GraphGame(w) /\ UNCHANGED <<pos, w>>
Next == Grow \/ Finish \/ GraphStart \/ GraphGrow
Spec == Init /\ [][Next]_vars

Ready == stage \in {"table", "graph"}
v0 == ZeroNorm(v)
D  == Surplus(v)

PremiseSA       == Ready => IsSuperadditive(v)
AlgEqualsDef    == Ready => ZeroNormAlg(v) = v0
SingletonsZero  == Ready => Sing0(v0)
UnitRange       == Ready => InUnitRange(v0)
GrandOneOrZero  == Ready => (D = 0 => \A c \in Coals : v0[c] = 0)           \* additive: identically zero
SurplusNonNeg   == Ready => D >= 0
StillSuperadditive == Ready => StillSA(v0)
DenormIsInverse == Ready => Denorm(v0, NormInfo(v)) = v
GraphSameAsTable == stage = "graph" =>
                      /\ Sing0(v) /\ v0 = v                                   \* graph games have zero singletons
                      /\ v[Grand] = LET wt(p) == w[p[1]][p[2]] IN MapThenSumSet(wt, Pairs)
=============================================================================
