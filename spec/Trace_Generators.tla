-------------------------- MODULE Trace_Generators --------------------------
(***************************************************************************)
(* Trace validation for C10: one trace = one registered generator invoked  *)
(* twice with identically seeded numpy Generators for one player count.    *)
(***************************************************************************)
EXTENDS Generators, Json, IOUtils

CONSTANT Props
Batch  == JsonDeserialize(IOEnv.TRACE_FILE)
Traces == Batch.traces
VARIABLES tid, l
tvars == <<tid, l>>

Fail(name, cond) == IF cond THEN {} ELSE {<<"C10", name>>}

Failures(T) ==
  Fail("RunsWithoutException", T.exc = "")
  \cup (IF T.exc # "" THEN {} ELSE
       LET v == Arr(T.v) IN
          Fail("RequestedNumberOfPlayers", T.players = N /\ Len(T.v) = NC)
     \cup Fail("EmptyCoalitionIsZero", T.empty_zero = 1)
     \cup Fail("Float64Values", T.float64 = 1)
     \cup Fail("Superadditive", SuperadditiveTol(v, T.tol))
     \cup Fail("MonotoneNonIncreasingForSAMFamilies",
               ClassOf(T.name, T.sam_prefix = 1) = "SAM" => MonoNonIncTol(v, T.tol))
     \cup Fail("IdenticallySeededCallsReturnIdenticalGames", SeededContract(T.name) => T.same_bits = 1)
     \cup Fail("RoundRobinFactoryRotatesOwner",
               (T.name = "predictible_factory" /\ N >= 3) => OwnerOf(Arr(T.v2)) = (OwnerOf(v) + 1) % N))

TraceInit == tid \in 1..Len(Traces) /\ l = 0
TraceNext == /\ l = 0 /\ l' = 1 /\ tid' = tid
             /\ \A f \in Failures(Traces[tid]) : PrintT(<<"VERDICT", Traces[tid].tid, 1, f[1], f[2], 0>>)
TraceSpec == TraceInit /\ [][TraceNext]_tvars
AllConsumed == TLCGet("distinct") = 2 * Len(Traces)
=============================================================================
