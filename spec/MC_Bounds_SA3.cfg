SPECIFICATION Spec
CONSTANTS
  N = 3
  Class = "SA"
  SingVals <- Vm1to1
  Slacks <- V0to2
  Computers = {"sa", "sac"}
  Reps = {0}
  MaxChg = 2
  AllowReset = TRUE
  CheckTight = TRUE
  CheckEdges = TRUE
INVARIANT GeneratedInClass
INVARIANT SoundInv
INVARIANT OrderedInv
INVARIANT KnownExactInv
INVARIANT LowerIsBP
INVARIANT UpperIsDef
INVARIANT LowerAttained
INVARIANT UpperAttained
INVARIANT CanonicalInv
INVARIANT Idempotent
INVARIANT EdgesShrink
CHECK_DEADLOCK FALSE
