---------------------------- MODULE Multiplicative ----------------------------
(***************************************************************************)
(* Growth of the specification beyond the listed properties: the           *)
(* multiplicative factors (multiplicative/multiplicative_factor.py) and    *)
(* the contract of the Max-XOS approximation                               *)
(* (multiplicative/max_xos_approximation.py).                              *)
(* A factor is the maximum over non-empty coalitions of num[S] / den[S];   *)
(* the code asserts num >= den > 0 there.                                  *)
(***************************************************************************)
EXTENDS GameTheory

NonEmptyCoals == Coals \ {0}
Applicable(num, den) == \A c \in NonEmptyCoals : num[c] >= den[c] /\ den[c] > 0
\* r = <<p, q>> is the maximal ratio
IsMaxRatio(p, q, num, den) == /\ \E c \in NonEmptyCoals : num[c] * q = p * den[c]
                              /\ \A c \in NonEmptyCoals : num[c] * q <= p * den[c]
MaxRatio(num, den) == CHOOSE r \in {<<num[c], den[c]>> : c \in NonEmptyCoals} : IsMaxRatio(r[1], r[2], num, den)

\* contract of an approximation of a monotone, subadditive game with singleton values >= 1
IsLowerApproximation(apx, v, tol) == \A c \in Coals : apx[c] <= v[c] + tol
DominatesSingletons(apx, v, tol)  == \A c \in NonEmptyCoals : \A i \in SetOf(c) : apx[c] + tol >= v[2^i]
IsMonotoneSubadditive(v) == /\ \A c \in Coals : \A s \in Subs(c) : v[s] <= v[c]
                            /\ \A c \in Coals : \A s \in Subs(c) : v[c] <= v[s] + v[c - s]
=============================================================================
