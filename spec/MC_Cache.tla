------------------------------ MODULE MC_Cache ------------------------------
(***************************************************************************)
(* The memoised coalition structure of bounds.py (functools.cache keyed by *)
(* the player count) shared by every game object of one interpreter.       *)
(* Calls for different player counts interleave arbitrarily; the structure *)
(* handed to a call must be the one of ITS player count (C03).             *)
(***************************************************************************)
EXTENDS Integers, FiniteSets, Bitwise, TLC

CONSTANTS Sizes,      \* set of player counts used in one interpreter
          MaxCalls

VARIABLES cache,      \* partial function: player count -> structure
          calls, lastN, lastStruct
vars == <<cache, calls, lastN, lastStruct>>

Rel(c, d) == IF d = 0 THEN -2 ELSE IF d = c THEN 0 ELSE IF (d & c) = c THEN 2 ELSE IF (d & c) = d THEN 1 ELSE -1
Struct(n) == [c \in 0..(2^n - 1) |-> [d \in 0..(2^n - 1) |-> Rel(c, d)]]

Init == cache = [n \in {} |-> 0] /\ calls = 0 /\ lastN = 0 /\ lastStruct = <<>>

\* one invocation of a cached computer on a game with n players
Call(n) == /\ calls < MaxCalls
           /\ cache' = IF n \in DOMAIN cache THEN cache ELSE [m \in DOMAIN cache \cup {n} |-> IF m = n THEN Struct(n) ELSE cache[m]]
           /\ lastN' = n /\ lastStruct' = cache'[n]
           /\ calls' = calls + 1

Next == \E n \in Sizes : Call(n)
Spec == Init /\ [][Next]_vars

CacheFaithful  == \A n \in DOMAIN cache : cache[n] = Struct(n)
HandedOwnSize  == lastN # 0 => lastStruct = Struct(lastN)
NeverEvicted   == [][DOMAIN cache \subseteq DOMAIN cache']_vars
=============================================================================
