--------------------------- MODULE MC_ResultsFile ---------------------------
(***************************************************************************)
(* Every sequence of saves (new and repeated names) up to a bound.         *)
(***************************************************************************)
EXTENDS ResultsFile

CONSTANTS Names, Entries, MaxSaves
VARIABLES file, saves, last
vars == <<file, saves, last>>

Init == file = [x \in {} |-> 0] /\ saves = 0 /\ last = [op |-> "init", name |-> "", entry |-> 0]
DoSave(nm, e) == /\ saves < MaxSaves /\ file' = Save(file, nm, e) /\ saves' = saves + 1
                 /\ last' = [op |-> "save", name |-> nm, entry |-> e]
Next == \E nm \in Names, e \in Entries : DoSave(nm, e)
Spec == Init /\ [][Next]_vars

NeverOverwritten  == [][EarlierUnchanged(file, file')]_vars
RepeatIsNoop      == [][(last'.name \in DOMAIN file) => file' = file]_vars
NewNameIsAdded    == [][(last'.name \notin DOMAIN file) => (file'[last'.name] = last'.entry /\ DOMAIN file' = DOMAIN file \cup {last'.name})]_vars
FirstWins         == \A x \in DOMAIN file : file[x] \in Entries
=============================================================================
