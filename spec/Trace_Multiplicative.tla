------------------------- MODULE Trace_Multiplicative -------------------------
(* Trace validation of the multiplicative factors and of compute_max_xos_approximation (beyond the listed properties). *)
EXTENDS Multiplicative, Json, IOUtils

CONSTANT Props
Batch  == JsonDeserialize(IOEnv.TRACE_FILE)
Traces == Batch.traces
VARIABLES tid, l
tvars == <<tid, l>>
Fail(name, cond) == IF cond THEN {} ELSE {<<"X01", name>>}
GRID == 65536
AbsV(x) == IF x < 0 THEN -x ELSE x

Failures(T) ==
  CASE T.kind = "factor" ->
         LET num == Arr(T.num)  den == Arr(T.den) IN
            Fail("AssertsItsPreconditions", (T.exc = "") <=> Applicable(num, den))
       \cup (IF T.exc # "" \/ ~Applicable(num, den) THEN {} ELSE
             LET r == MaxRatio(num, den) IN
             \* the float result, on a 2^-16 grid, is the maximal ratio: |f * q - p| <= q/2 grid units (+1)
             Fail("FactorIsMaximalRatio", AbsV(T.out * r[2] - r[1] * GRID) <= r[2]))
    [] T.kind = "maxxos" ->
         LET v == Arr(T.v)  apx == Arr(T.apx) IN
            Fail("NoException", T.exc = "")
       \cup (IF T.exc # "" THEN {} ELSE
            Fail("PremiseMonotoneSubadditive", IsMonotoneSubadditive(v))
       \cup Fail("ApproximationNeverExceedsTheGame", IsLowerApproximation(apx, v, 1))
       \cup Fail("ApproximationDominatesMemberSingletons", DominatesSingletons(apx, v, 1))
       \cup Fail("QueriedIdsAreNonEmptyCoalitions", \A i \in 1..Len(T.queried) : T.queried[i] \in NonEmptyCoals)
       \cup Fail("EmptyCoalitionApproximatedByZero", apx[0] = 0))
    [] OTHER -> {}

TraceInit == tid \in 1..Len(Traces) /\ l = 0
TraceNext == /\ l = 0 /\ l' = 1 /\ tid' = tid
             /\ \A f \in Failures(Traces[tid]) : PrintT(<<"VERDICT", Traces[tid].tid, 1, f[1], f[2], 0>>)
TraceSpec == TraceInit /\ [][TraceNext]_tvars
AllConsumed == TLCGet("distinct") = 2 * Len(Traces)
=============================================================================
