--------------------------- MODULE Trace_Evaluate ---------------------------
(***************************************************************************)
(* C12: trace validation of evaluate().  One trace = one call of           *)
(* evaluate() through ModelInstance with a given solver, generator, seed,  *)
(* repetition count and number of worker processes.  The hidden game of    *)
(* every repetition is recorded INSIDE the worker by the after_reset       *)
(* callback; the returned matrices are logged column by column.            *)
(***************************************************************************)
EXTENDS Gym, Json, IOUtils

CONSTANT Props
Batch  == JsonDeserialize(IOEnv.TRACE_FILE)
Traces == Batch.traces
VARIABLES tid, l
tvars == <<tid, l>>

Fail(name, cond) == IF cond THEN {} ELSE {<<"C12", name>>}
InIv(x, iv) == iv[1] <= x /\ x <= iv[2]
Close(a, b, tol) == a - b <= tol /\ b - a <= tol
FactN == Fact(N)
CfgOf(T) == [comp |-> T.comp, r |-> T.r, gap |-> T.gap, budget |-> T.steps, initial |-> Minimal]

GapOK(T, t, g) ==
  IF T.mode = "exact" THEN InIv(GapN(T.gap, t), g)
  ELSE CASE T.gap = "exploitability" -> Close(g[1] * FactN, ExploitabilityN(t), (N + 2) * FactN)
         [] T.gap = "l1_norm"        -> Close(g[1], L1(t), NC + 1)
         [] T.gap = "linf_norm"      -> Close(g[1], LInf(t), 2)
         [] T.gap = "l2_norm"        -> LInf(t) - 2 <= g[1] /\ g[1] <= L1(t) + NC + 1

\* the table after the first s recorded actions of repetition rep in ITS hidden game
RECURSIVE TabAfter(_, _, _, _)
TabAfter(T, cfg, rep, s) ==
  IF s = 0 THEN Compute(cfg.comp, cfg.r, FreshTab(Minimal, Arr(rep.hid)))
  ELSE LET prev == TabAfter(T, cfg, rep, s - 1)
           c    == rep.actions[s]
       IN  Compute(cfg.comp, cfg.r, RevealT(prev, c, Arr(rep.hid)[c]))

RepClauses(T, j) ==
  LET rep == T.reps[j]
      cfg == CfgOf(T)
      taken == rep.taken                         \* number of steps actually performed (rows beyond are padding)
      acts == {rep.actions[s] : s \in 1..taken}
  IN   Fail("HiddenGameRecorded", rep.has_hid = 1)
  \cup (IF rep.has_hid # 1 THEN {} ELSE
       Fail("ActionsAreDistinctExplorableCoalitions", Cardinality(acts) = taken /\ acts \subseteq Coals \ Minimal)
  \cup (IF ~(Cardinality(acts) = taken /\ acts \subseteq Coals \ Minimal) THEN {} ELSE
       Fail("RowZeroIsGapAtMinimalInformation", GapOK(T, TabAfter(T, cfg, rep, 0), rep.gaps[1]))
  \cup Fail("RowIsGapAfterRecordedActionsInThatGame",
            \A s \in 1..taken : GapOK(T, TabAfter(T, cfg, rep, s), rep.gaps[s + 1]))
  \cup Fail("EarlyStopOnlyWhenDone",
            taken < T.steps => LET e == Env(TabAfter(T, cfg, rep, taken), taken, Arr(rep.hid)) IN
                               (T.mode # "exact" \/ Done(cfg, e)))))

Failures(T) ==
     Fail("NoException", T.exc = "")
  \cup (IF T.exc # "" THEN {} ELSE
       Fail("OneColumnPerRepetition", Len(T.reps) = T.repetitions)
  \cup UNION {RepClauses(T, j) : j \in 1..Len(T.reps)}
  \cup Fail("RepetitionsUseIndependentlyDrawnGames",
            T.continuous = 1 => \A i, j \in 1..Len(T.reps) : i # j => T.reps[i].hid_tok # T.reps[j].hid_tok)
  \cup Fail("SameHiddenGamesForEveryNumberOfProcesses", T.games_same_p1 # 0)
  \cup Fail("SameResultForEveryNumberOfProcesses", T.via = "api" => T.same_p1 # 0)
  \* the `solve` command (argument parser -> ModelInstance -> solve_func -> save -> data.json) hands on exactly what evaluate() returns
  \* for the configuration given on the command line
  \cup Fail("SolveCommandSavesWhatEvaluateReturns", T.via = "cli" => T.same_p1 = 1))

TraceInit == tid \in 1..Len(Traces) /\ l = 0
TraceNext == /\ l = 0 /\ l' = 1 /\ tid' = tid
             /\ \A f \in Failures(Traces[tid]) : PrintT(<<"VERDICT", Traces[tid].tid, 1, f[1], f[2], 0>>)
TraceSpec == TraceInit /\ [][TraceNext]_tvars
AllConsumed == TLCGet("distinct") = 2 * Len(Traces)
=============================================================================
