---------------------------- MODULE Trace_Search ----------------------------
(***************************************************************************)
(* C11 (and the expected-greedy part of C13): trace validation of the      *)
(* exhaustive search, the meta-game, best-states and expected-greedy.      *)
(* One trace = one call of the real code with everything it returned.      *)
(***************************************************************************)
EXTENDS Search, Json, IOUtils

CONSTANTS Props
Batch  == JsonDeserialize(IOEnv.TRACE_FILE)
Traces == Batch.traces
VARIABLES tid, l
tvars == <<tid, l>>

Fail(p, name, cond) == IF p \in Props THEN (IF cond THEN {} ELSE {<<p, name>>}) ELSE {}
InIv(x, iv) == iv[1] <= x /\ x <= iv[2]
AsSet(s) == {s[i] : i \in 1..Len(s)}
NoDup(s) == Cardinality(AsSet(s)) = Len(s)
CfgOf(T) == [comp |-> T.comp, r |-> T.r, gap |-> T.gap, budget |-> -1, initial |-> Minimal]
SumGap(cfg, K0, S, games) == LET g(j) == GapOf(cfg, K0, S, Arr(games[j])) IN
                              LET RECURSIVE sum(_) sum(j) == IF j = 0 THEN 0 ELSE g(j) + sum(j - 1) IN sum(Len(games))

Failures(T) ==
  LET cfg == CfgOf(T)
      K0  == AsSet(T.k0)
      U   == Coals \ K0
  IN
  CASE T.kind = "search" ->
         LET hid == Arr(T.hid) IN
            Fail("C11", "NoException", T.exc = "")
       \cup (IF T.exc # "" THEN {} ELSE
            Fail("C11", "EveryRevealSetExactlyOnce",
                 /\ Len(T.seqs) = Cardinality(RevealSets(U, T.k))
                 /\ {AsSet(T.seqs[i]) : i \in 1..Len(T.seqs)} = RevealSets(U, T.k)
                 /\ \A i \in 1..Len(T.seqs) : NoDup(T.seqs[i]))
       \cup Fail("C11", "GapIsGapOfStartingKnowledgePlusSet",
                 Len(T.vals) = Len(T.seqs) /\ \A i \in 1..Len(T.seqs) : InIv(GapOf(cfg, K0, AsSet(T.seqs[i]) \cap U, hid), T.vals[i]))
       \cup Fail("C11", "IndependentOfWorkerProcessCount", T.same_p1 # 0))
    [] T.kind = "sample" ->
         \* T.games[i] is the game of sample i; T.rows[i][j] the gap reported for reveal set T.seqs[j] on it
            Fail("C11", "NoException", T.exc = "")
       \cup (IF T.exc # "" THEN {} ELSE
            Fail("C11", "SampledEveryRevealSetExactlyOnce",
                 /\ Len(T.seqs) = Cardinality(RevealSets(U, T.k))
                 /\ {AsSet(T.seqs[i]) : i \in 1..Len(T.seqs)} = RevealSets(U, T.k)
                 /\ \A i \in 1..Len(T.seqs) : NoDup(T.seqs[i]))
       \cup Fail("C11", "OneFreshGamePerSample", T.same_p1 = 1 /\ Len(T.rows) = T.max_steps)
       \cup Fail("C11", "SampleRowIsGapOnThatSamplesGame",
                 \A i \in 1..Len(T.rows) : Len(T.rows[i]) = Len(T.seqs) /\
                     \A j \in 1..Len(T.seqs) : InIv(GapOf(cfg, K0, AsSet(T.seqs[j]) \cap U, Arr(T.games[i])), T.rows[i][j])))
    [] T.kind = "stacked" ->
            Fail("C11", "NoException", T.exc = "")
       \cup (IF T.exc # "" THEN {} ELSE
            Fail("C11", "StackedRowIsGapOfSequencePerGame",
                 Len(T.rows) = Len(T.seqs) /\ \A i \in 1..Len(T.seqs) : Len(T.rows[i]) = Len(T.games) /\
                     \A j \in 1..Len(T.games) : InIv(GapOf(cfg, K0, AsSet(T.seqs[i]) \cap U, Arr(T.games[j])), T.rows[i][j])))
    [] T.kind = "meta" ->
         LET hid == Arr(T.hid) IN
            Fail("C11", "NoException", T.exc = "")
       \cup Fail("C11", "MetaGameReturnsSameQuantity", T.exc # "" \/ InIv(GapOf(cfg, Minimal, AsSet(T.chosen), hid), T.val))
    [] T.kind = "best" ->
         LET sizes == 0..T.max_steps
             hasCand(s) == s <= Cardinality(U)
             act(s) == AsSet(T.actions[s + 1])
         IN Fail("C11", "NoException", T.exc = "")
       \cup (IF T.exc # "" THEN {} ELSE
            Fail("C11", "BestSetIsASetOfThatSize",
                 \A s \in sizes : hasCand(s) => (act(s) \subseteq U /\ Cardinality(act(s)) = s /\ NoDup(T.actions[s + 1])))
       \cup Fail("C11", "RowsAreGapsOfReportedSetPerGame",
                 \A s \in sizes : hasCand(s) => \A j \in 1..Len(T.games) : InIv(GapOf(cfg, K0, act(s), Arr(T.games[j])), T.rows[s + 1][j]))
       \cup Fail("C11", "ReportedSetAttainsMinimumMeanGap",
                 \A s \in sizes : hasCand(s) => \A S \in {S \in RevealSets(U, T.max_steps) : Cardinality(S) = s} :
                       SumGap(cfg, K0, act(s), T.games) <= SumGap(cfg, K0, S, T.games))
       \cup Fail("C11", "CurveNonIncreasingInClass",
                 T.inclass = 1 => \A s \in sizes : (s + 1 \in sizes /\ hasCand(s + 1)) =>
                       SumGap(cfg, K0, act(s + 1), T.games) <= SumGap(cfg, K0, act(s), T.games)))
    [] T.kind = "greedy" ->
         LET chosen(s) == {T.seq[i] : i \in 1..s}                  \* first s coalitions of the greedy sequence
             steps == Len(T.seq)
             exOpt(s) == Min({SumGap(cfg, K0, S, T.games) : S \in {S \in RevealSets(U, s) : Cardinality(S) = s}})
         IN Fail("C13", "GreedyNoException", T.exc = "")
       \cup (IF T.exc # "" THEN {} ELSE
            Fail("C13", "GreedyNeverRepeatsACoalition", NoDup(T.seq) /\ AsSet(T.seq) \subseteq U)
       \cup Fail("C13", "GreedyRevealsAsManyCoalitionsAsAsked",
                 T.max_steps <= Cardinality(U) => (Len(T.seq) = T.max_steps /\ Len(T.rows) = T.max_steps + 1))
       \cup Fail("C13", "GreedyExtendsByAMinimiserOfTheMeanGap",
                 \A s \in 1..steps : \A c \in U \ chosen(s - 1) :
                     SumGap(cfg, K0, chosen(s), T.games) <= SumGap(cfg, K0, chosen(s - 1) \cup {c}, T.games) + T.eps)
       \cup Fail("C13", "GreedyRowsAreGapsOfChosenPrefix",
                 \A s \in 0..steps : \A j \in 1..Len(T.games) : InIv(GapOf(cfg, K0, chosen(s), Arr(T.games[j])), T.rows[s + 1][j]))
       \cup Fail("C13", "GreedyCurveNonIncreasing",
                 T.inclass = 1 => \A s \in 1..steps : SumGap(cfg, K0, chosen(s), T.games) <= SumGap(cfg, K0, chosen(s - 1), T.games))
       \cup Fail("C13", "GreedyNeverBelowExhaustiveOptimum",
                 \A s \in 0..steps : s <= T.exh_upto => SumGap(cfg, K0, chosen(s), T.games) >= exOpt(s))
       \cup Fail("C13", "GreedyEqualsOptimumForZeroAndOneReveals",
                 \A s \in 0..1 : s <= steps => SumGap(cfg, K0, chosen(s), T.games) <= exOpt(s) + T.eps))
    [] OTHER -> {}

TraceInit == tid \in 1..Len(Traces) /\ l = 0
TraceNext == /\ l = 0 /\ l' = 1 /\ tid' = tid
             /\ \A f \in Failures(Traces[tid]) : PrintT(<<"VERDICT", Traces[tid].tid, 1, f[1], f[2], 0>>)
TraceSpec == TraceInit /\ [][TraceNext]_tvars
AllConsumed == TLCGet("distinct") = 2 * Len(Traces)
=============================================================================
