--------------------------- MODULE Apa_ResultsFile ---------------------------
(***************************************************************************)
(* Unbounded histories of the logical results file (C19), for Apalache.    *)
(* "Saving never changes or removes an earlier entry" by an inductive      *)
(* argument over the SAME operators Save / EarlierUnchanged of             *)
(* ResultsFile.tla that the trace specification Trace_Save evaluates on    *)
(* the real code's files:                                                  *)
(*   base  Init => NeverOverwritten                      (--length=0)      *)
(*   step  NeverOverwritten /\ NextAny => NeverOverwritten'  (--length=1)  *)
(* for files of up to 8 names, any integer names and entries, any number   *)
(* of saves -- complementing TLC's bounded exploration (MC_ResultsFile).   *)
(***************************************************************************)
EXTENDS ResultsFile, Apalache

VARIABLES
    \* @type: Int -> Int;
    file,
    \* @type: Int -> Int;
    file0

\* the snapshot file0 is the file at some earlier moment
NeverOverwritten == EarlierUnchanged(file0, file)

Init == file = Gen(8) /\ file0 = file

IndInit == file = Gen(8) /\ file0 = Gen(8) /\ NeverOverwritten

NextAny == \E nm \in Int : \E e \in Int : file' = Save(file, nm, e) /\ UNCHANGED file0

=============================================================================
