SPECIFICATION Spec
INVARIANT AtomicOrNothing
INVARIANT CompletedIsNew
CHECK_DEADLOCK FALSE
