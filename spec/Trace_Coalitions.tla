-------------------------- MODULE Trace_Coalitions --------------------------
(***************************************************************************)
(* C18: every recorded result of the coalition operations (object form and *)
(* id-array form) and of the class predicates is compared with its         *)
(* finite-set / textbook meaning.  One item per trace.                     *)
(***************************************************************************)
EXTENDS GameTheory, Json, IOUtils, SequencesExt

CONSTANT Props
Batch  == JsonDeserialize(IOEnv.TRACE_FILE)
Traces == Batch.traces
VARIABLES tid, l
tvars == <<tid, l>>

Fail(name, cond) == IF cond THEN {} ELSE {<<"C18", name>>}
AsSet(s) == {s[i] : i \in 1..Len(s)}
NoDup(s) == Cardinality(AsSet(s)) = Len(s)
SortedPlayers(c) == SetToSortSeq(SetOf(c), <)
Bool(x) == x = 1

\* 2^-e * m <= 1e-9 (documented relative tolerance), m small, 11 <= e <= 40
WithinTolerance(m, e) == e >= 11 /\ e <= 40 /\ m <= (2^(e - 10)) \div 976563

Failures(T) ==
  CASE T.kind = "coal" ->
         LET c == T.c IN
            Fail("NoException", T.exc = "")
       \cup (IF T.exc # "" THEN {} ELSE
            Fail("PlayersListed", T.players = SortedPlayers(c) /\ T.id_players = SortedPlayers(c))
       \cup Fail("Size", T.size = Cardinality(SetOf(c)) /\ T.id_size = Cardinality(SetOf(c)))
       \cup Fail("Complement", SetOf(T.compl) = Players \ SetOf(c))
       \cup Fail("FromPlayersRoundTrip", T.from_players = c)
       \cup Fail("SubCoalitionsObjectForm", NoDup(T.subs) /\ {SetOf(s) : s \in AsSet(T.subs)} = SUBSET SetOf(c))
       \cup Fail("SubCoalitionsIdForm", NoDup(T.id_subs) /\ {SetOf(s) : s \in AsSet(T.id_subs)} = SUBSET SetOf(c))
       \cup Fail("SuperCoalitionsObjectForm",
                 NoDup(T.supers) /\ {SetOf(s) : s \in AsSet(T.supers)} = {S \in SUBSET Players : SetOf(c) \subseteq S})
       \cup Fail("SuperCoalitionsIdForm",
                 NoDup(T.id_supers) /\ {SetOf(s) : s \in AsSet(T.id_supers)} = {S \in SUBSET Players : SetOf(c) \subseteq S})
       \cup Fail("BothFormsAgree", AsSet(T.subs) = AsSet(T.id_subs) /\ AsSet(T.supers) = AsSet(T.id_supers)))
    [] T.kind = "helper" ->
            Fail("NoException", T.exc = "")
       \cup (IF T.exc # "" THEN {} ELSE
            Fail("AllCoalitionsEnumerated", NoDup(T.all) /\ AsSet(T.all) = Coals)
       \cup Fail("GrandCoalition", SetOf(T.grand) = Players)
       \cup Fail("MinimalGameCoalitions", AsSet(T.minimal) = Minimal)    \* for one player the grand coalition IS the singleton: listed twice, not a defect
       \cup Fail("SingletonOfPlayer", \A i \in Players : SetOf(T.singles[i + 1]) = {i})
       \cup Fail("CoalitionsAvoidingACoalition", NoDup(T.avoid) /\ AsSet(T.avoid) = {d \in Coals : SetOf(d) \cap SetOf(T.c) = {}})
       \cup Fail("HashConsistentWithEquality", T.hash_ok = 1))
    [] T.kind = "pair" ->
         LET A == SetOf(T.a)  B == SetOf(T.b) IN
            Fail("NoException", T.exc = "")
       \cup (IF T.exc # "" THEN {} ELSE
            Fail("Union", SetOf(T.or) = A \cup B)
       \cup Fail("Intersection", SetOf(T.and) = A \cap B)
       \cup Fail("Difference", SetOf(T.sub) = A \ B)
       \cup Fail("Containment", Bool(T.contains) <=> (B \subseteq A))
       \cup Fail("Disjointness", Bool(T.disjoint) <=> (A \cap B = {}))
       \cup Fail("Equality", Bool(T.eq) <=> (A = B)))
    [] T.kind = "player" ->
         LET A == SetOf(T.a) IN
            Fail("NoException", T.exc = "")
       \cup (IF T.exc # "" THEN {} ELSE
            Fail("AddPlayer", SetOf(T.add) = A \cup {T.i})
       \cup Fail("RemovePlayer", SetOf(T.rem) = A \ {T.i})
       \cup Fail("Membership", Bool(T.has) <=> (T.i \in A))
       \cup Fail("UnionWithPlayer", SetOf(T.orp) = A \cup {T.i})
       \cup Fail("IntersectionWithPlayer", SetOf(T.andp) = A \cap {T.i}))
    [] T.kind = "pred" ->
         LET v == Arr(T.v) IN
            Fail("NoException", T.exc = "")
       \cup (IF T.exc # "" THEN {} ELSE
            Fail("SuperadditivityPredicate", Bool(T.sa) <=> IsSuperadditive(v))
       \cup Fail("MonotonicityPredicate", Bool(T.mono) <=> IsMonoNonInc(v))
       \cup Fail("SAMPredicate", Bool(T.sam) <=> IsSAM(v))
       \cup Fail("SupermodularityPredicate", T.supermod = -1 \/ (Bool(T.supermod) <=> IsSupermodular(v))))
    [] T.kind = "tolpred" ->
            Fail("NoException", T.exc = "")
       \cup Fail("DocumentedRelativeTolerance", T.exc # "" \/ (Bool(T.sa) <=> WithinTolerance(T.m, T.e)))
    [] OTHER -> {}

TraceInit == tid \in 1..Len(Traces) /\ l = 0
TraceNext == /\ l = 0 /\ l' = 1 /\ tid' = tid
             /\ \A f \in Failures(Traces[tid]) : PrintT(<<"VERDICT", Traces[tid].tid, 1, f[1], f[2], 0>>)
TraceSpec == TraceInit /\ [][TraceNext]_tvars
AllConsumed == TLCGet("distinct") = 2 * Len(Traces)
=============================================================================
