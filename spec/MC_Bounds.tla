----------------------------- MODULE MC_Bounds -----------------------------
(***************************************************************************)
(* Model-checking instance for the bound computers over the game object:   *)
(* every hidden game of a small lattice (built constructively by size) x   *)
(* every history of reveal / un-reveal / bulk reset / compute through the  *)
(* knowledge lattice, with the STALE table kept as state.                  *)
(* Serves C01, C02, C04, C07, C08 (and C03 through both SA computers).     *)
(***************************************************************************)
EXTENDS Bounds, SequencesExt

CONSTANTS Class,        \* "SA" | "SAM" | "ANY" : class of the hidden games enumerated
          SingVals,     \* set of singleton values
          Slacks,       \* SA: v(S) = best split + slack;  ANY/SAM: value range
          Computers,    \* subset of {"sa","sac","sam"}
          Reps,         \* set of SAM repetition counts
          MaxChg,       \* knowledge changes allowed between two computes
          AllowReset,   \* BOOLEAN: include bulk resets to arbitrary knowledge sets
          CheckTight,   \* BOOLEAN: evaluate the C02 invariants
          CheckEdges,   \* BOOLEAN: evaluate the C07 edge invariant at fresh states
          CheckBrute    \* BOOLEAN: evaluate the brute-force completion invariant (C02, small lattices only)

\* named values for .cfg files (a cfg cannot contain negative literals)
Vm1to1 == {-1, 0, 1}
Vm1and1 == {-1, 1}
Vzero  == {0}
Vm3to0 == (-3)..0
Vm2to0 == (-2)..0
V0to2  == 0..2
V0to1  == 0..1
V0to3  == 0..3

VARIABLES stage, pos, hid, tab, fresh, comp, rep, nchg, last
vars == <<stage, pos, hid, tab, fresh, comp, rep, nchg, last>>

\* coalitions in (size, id) order, as a sequence, without the empty coalition
Order == LET RECURSIVE bySize(_)
             bySize(k) == IF k > N THEN <<>> ELSE SetToSortSeq(OfSize(k), <) \o bySize(k + 1)
         IN bySize(1)

MaxSplit(v, c) == Max({ v[s] + v[c - s] : s \in ProperSubs(c) })
MinSub(v, c)   == Min({ v[s] : s \in ProperSubs(c) })
LoVal == Min(Slacks)

Candidates(v, c) ==
  IF Size(c) = 1 THEN SingVals
  ELSE CASE Class = "SA"  -> { MaxSplit(v, c) + s : s \in Slacks }
         [] Class = "SAM" -> { x \in LoVal..0 : x >= MaxSplit(v, c) /\ x <= MinSub(v, c) }
         [] Class = "ANY" -> Slacks

Init == /\ stage = "grow" /\ pos = 1
        /\ hid = [c \in Coals |-> 0]
        /\ tab = InitTab /\ fresh = FALSE
        /\ comp = "none" /\ rep = 0 /\ nchg = 0 /\ last = [op |-> "init", c |-> 0]

Grow == /\ stage = "grow" /\ pos <= Len(Order)
        /\ \E x \in Candidates(hid, Order[pos]) : hid' = [hid EXCEPT ![Order[pos]] = x]
        /\ pos' = pos + 1
        /\ UNCHANGED <<stage, tab, fresh, comp, rep, nchg, last>>

Start == /\ stage = "grow" /\ pos > Len(Order)
         /\ stage' = "play"
         /\ \E cp \in Computers : comp' = cp /\ (IF cp = "sam" THEN rep' \in Reps ELSE rep' = 0)
         /\ tab' = FreshTab(Minimal, hid) /\ fresh' = FALSE /\ nchg' = 0 /\ last' = [op |-> "start", c |-> 0]
         /\ UNCHANGED <<pos, hid>>

Reveal(c) == /\ stage = "play" /\ ~tab.k[c] /\ nchg < MaxChg
             /\ tab' = Tab([tab.k EXCEPT ![c] = TRUE], [tab.lo EXCEPT ![c] = hid[c]], [tab.up EXCEPT ![c] = hid[c]])
             /\ fresh' = FALSE /\ nchg' = nchg + 1 /\ last' = [op |-> "reveal", c |-> c]
             /\ UNCHANGED <<stage, pos, hid, comp, rep>>

Unreveal(c) == /\ stage = "play" /\ tab.k[c] /\ c \notin Minimal /\ nchg < MaxChg
               /\ tab' = Tab([tab.k EXCEPT ![c] = FALSE], [tab.lo EXCEPT ![c] = 0], [tab.up EXCEPT ![c] = 0])
               /\ fresh' = FALSE /\ nchg' = nchg + 1 /\ last' = [op |-> "unreveal", c |-> c]
               /\ UNCHANGED <<stage, pos, hid, comp, rep>>

ResetTo(K) == /\ stage = "play" /\ AllowReset /\ nchg < MaxChg
              /\ tab' = FreshTab(Minimal \cup K, hid)
              /\ fresh' = FALSE /\ nchg' = nchg + 1 /\ last' = [op |-> "reset", c |-> 0]
              /\ UNCHANGED <<stage, pos, hid, comp, rep>>

ComputeAct == /\ stage = "play"
              /\ tab' = Compute(comp, rep, tab)
              /\ fresh' = TRUE /\ nchg' = 0 /\ last' = [op |-> "compute", c |-> 0]
              /\ UNCHANGED <<stage, pos, hid, comp, rep>>

Next == \/ Grow \/ Start \/ ComputeAct
        \/ \E c \in Explorable : Reveal(c) \/ Unreveal(c)
        \/ \E K \in SUBSET Explorable : ResetTo(K)

Spec == Init /\ [][Next]_vars

\* the table is not part of the view when it is stale garbage that cannot matter? -- no: it can, keep it.

InClass == CASE Class = "SA" -> IsSuperadditive(hid) [] Class = "SAM" -> IsSAM(hid) [] Class = "ANY" -> TRUE
AtFresh == stage = "play" /\ fresh
K == Known(tab)

\* ---- generator sanity (vacuity guard): the lattice really is inside the class
GeneratedInClass == (stage = "play") => InClass

\* ---- C01 / C04 soundness
SoundInv      == (AtFresh /\ Class # "ANY") => Sound(tab, hid, 0)
OrderedInv    == (AtFresh /\ Class # "ANY") => Ordered(tab, 0)
KnownExactInv == (stage = "play") => KnownExact(tab, hid)

\* ---- C02 tightness (SA computers)
LowerIsBP   == (AtFresh /\ comp # "sam" /\ CheckTight) => tab.lo = LowerGame(K, hid)
UpperIsDef  == (AtFresh /\ comp # "sam" /\ CheckTight) => tab.up = UpperGame(K, hid)
LowerAttained == (AtFresh /\ comp # "sam" /\ CheckTight /\ Class = "SA") =>
                   LET w == LowerGame(K, hid) IN IsSuperadditive(w) /\ AgreesOn(w, K, hid)
UpperAttained == (AtFresh /\ comp # "sam" /\ CheckTight /\ Class = "SA") =>
                   \A c \in Coals \ K :
                      LET w == UpperWitness(c, K, hid)
                      IN  IsSuperadditive(w) /\ AgreesOn(w, K, hid) /\ w[c] = tab.up[c]

\* brute force, independent of BestPartition and of the algorithm: every integer superadditive
\* completion in the box widened by one unit on each side lies inside the box, and the box is attained.
Completions ==
  LET U == Coals \ K
      lo1 == Min({tab.lo[c] : c \in U}) - 1
      up1 == Max({tab.up[c] : c \in U}) + 1
  IN  { w \in [U -> lo1..up1] :
          /\ \A c \in U : w[c] >= tab.lo[c] - 1 /\ w[c] <= tab.up[c] + 1
          /\ IsSuperadditive([c \in Coals |-> IF c \in U THEN w[c] ELSE hid[c]]) }
AllCompletionsInside ==
  (AtFresh /\ comp # "sam" /\ CheckBrute /\ Class = "SA" /\ K # Coals) =>
     \A c \in Coals \ K :
        /\ Min({ w[c] : w \in Completions }) = tab.lo[c]
        /\ Max({ w[c] : w \in Completions }) = tab.up[c]

\* ---- C03 the two SA computers agree on every table, stale rows included
Interchangeable == (stage = "play" /\ MinimalKnown(tab)) => ComputeSA(tab) = ComputeSACached(tab)

\* ---- C04 SAM self-consistency
SamNotLooser == (AtFresh /\ comp = "sam" /\ Class = "SAM") =>
                   Shrinks(ComputeSACached(FreshTab(K, hid)), tab, 0)
SamMonotoneInR == (AtFresh /\ comp = "sam" /\ Class = "SAM") =>
                   Shrinks(tab, ComputeSAM(tab, rep + 1), 0)
SamLowerMono == (AtFresh /\ comp = "sam" /\ Class = "SAM") => LowerMonotone(tab, 0)
SamUpperCaps == (AtFresh /\ comp = "sam" /\ Class = "SAM") => UpperCaps(tab, 0)

\* ---- C08 bounds are a function of the knowledge
CanonicalInv == AtFresh => tab = Canonical(comp, rep, K, hid)
Idempotent   == AtFresh => Compute(comp, rep, tab) = tab

\* ---- C07 every edge of the knowledge lattice leaving K shrinks every interval
EdgesShrink == (AtFresh /\ CheckEdges /\ Class # "ANY") =>
                 \A c \in Coals \ K :
                   LET t1 == Tab([tab.k EXCEPT ![c] = TRUE], [tab.lo EXCEPT ![c] = hid[c]], [tab.up EXCEPT ![c] = hid[c]])
                   IN  Shrinks(tab, Compute(comp, rep, t1), 0)
=============================================================================
