--------------------------- MODULE Trace_GraphGame ---------------------------
(* Trace validation of GraphCooperativeGame and of equality between game objects (beyond the listed properties: X02). *)
EXTENDS GraphGame, Json, IOUtils

CONSTANT Props
Batch  == JsonDeserialize(IOEnv.TRACE_FILE)
Traces == Batch.traces
VARIABLES tid, l
tvars == <<tid, l>>
Fail(name, cond) == IF cond THEN {} ELSE {<<"X02", name>>}
Mat(x) == [i \in 1..N |-> [j \in 1..N |-> x[i][j]]]

Failures(T) ==
  LET a == Mat(T.a)  b == Mat(T.b) IN
     Fail("NoException", T.exc = "")
  \cup (IF T.exc # "" THEN {} ELSE
       Fail("ValuesAreEdgeWeightsInsideTheCoalition", Arr(T.vals) = TableOf(a))
  \cup Fail("ValuesOfAListOfCoalitions", \A k \in 1..Len(T.sub) : T.subvals[k] = ValueOf(a, T.sub[k]))
  \cup Fail("ConstructorCopiesItsArgument", T.arg_untouched = 1)
  \cup Fail("NegationNegatesEveryValue", Arr(T.neg) = [c \in Coals |-> 0 - ValueOf(a, c)])
  \cup Fail("AdditionAddsValues", Arr(T.sum) = [c \in Coals |-> ValueOf(a, c) + ValueOf(b, c)])
  \cup Fail("CopyIsEqualAndIndependent", T.copy_eq = 1 /\ T.copy_indep = 1)
  \cup Fail("EqualityOfGraphGamesIsEqualityOfCountedWeights", (T.eq_ab = 1) <=> (Polish(a) = Polish(b)))
  \cup Fail("EqualityWithATableIsEqualityOfValues", (T.eq_table = 1) <=> (TableOf(a) = Arr(T.table)))
  \cup Fail("ComparisonWithANonGameIsRefused", T.eq_other = 1))

TraceInit == tid \in 1..Len(Traces) /\ l = 0
TraceNext == /\ l = 0 /\ l' = 1 /\ tid' = tid
             /\ \A f \in Failures(Traces[tid]) : PrintT(<<"VERDICT", Traces[tid].tid, 1, f[1], f[2], 0>>)
TraceSpec == TraceInit /\ [][TraceNext]_tvars
AllConsumed == TLCGet("distinct") = 2 * Len(Traces)
=============================================================================
