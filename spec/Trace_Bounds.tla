---------------------------- MODULE Trace_Bounds ----------------------------
(***************************************************************************)
(* Trace validation (code -> spec) for the game object driven through      *)
(* reveal / un-reveal / bulk reset / compute, with several twin objects    *)
(* (one per bound computer / repetition count) put through the SAME        *)
(* history.  Each recorded event carries the full projected table of every *)
(* object; the pre-state of an event is the logged post-state of the       *)
(* previous one, so every step is judged on its own and checking continues *)
(* after a failure.  One initial state per trace: TLC validates a batch in *)
(* parallel.  Clauses are grouped by the property they decide.             *)
(***************************************************************************)
EXTENDS Gaps, Json, IOUtils, SequencesExt

CONSTANT Props                     \* property ids whose clauses are evaluated

Batch  == JsonDeserialize(IOEnv.TRACE_FILE)
Traces == Batch.traces

VARIABLES tid, l, lc               \* trace, events consumed, index of the last compute event (0 = none)
tvars == <<tid, l, lc>>

TabOf(o)      == Tab([c \in Coals |-> o.k[c + 1] = 1], Arr(o.lo), Arr(o.up))
TabsAt(T, i)  == IF i = 0 THEN T.init ELSE T.events[i].tabs
NObj(T)       == Len(T.objs)

ValsOf(e) == [c \in Coals |-> IF \E j \in 1..Len(e.cs) : e.cs[j] = c
                              THEN e.vals[CHOOSE j \in 1..Len(e.cs) : e.cs[j] = c] ELSE 0]

\* the specification's action for a logged operation, applied to the logged pre-state
Apply(T, e, j, pre) ==
  CASE e.op = "reveal"   -> Tab([pre.k EXCEPT ![e.c] = TRUE], [pre.lo EXCEPT ![e.c] = e.val], [pre.up EXCEPT ![e.c] = e.val])
    [] e.op = "unreveal" -> Tab([pre.k EXCEPT ![e.c] = FALSE], [pre.lo EXCEPT ![e.c] = 0], [pre.up EXCEPT ![e.c] = 0])
    [] e.op = "set"      -> Tab([pre.k EXCEPT ![e.c] = TRUE], [pre.lo EXCEPT ![e.c] = e.val], [pre.up EXCEPT ![e.c] = e.val])
    [] e.op = "unset"    -> Tab([pre.k EXCEPT ![e.c] = FALSE], [pre.lo EXCEPT ![e.c] = 0], [pre.up EXCEPT ![e.c] = 0])
    [] e.op = "set_many" -> LET S == {e.cs[x] : x \in 1..Len(e.cs)} IN
                            Tab([c \in Coals |-> pre.k[c] \/ c \in S],
                                [c \in Coals |-> IF c \in S THEN ValsOf(e)[c] ELSE pre.lo[c]],
                                [c \in Coals |-> IF c \in S THEN ValsOf(e)[c] ELSE pre.up[c]])
    [] e.op = "reset"    -> FreshTab({e.cs[x] : x \in 1..Len(e.cs)}, ValsOf(e))
    [] e.op = "compute"  -> Compute(T.objs[j].comp, T.objs[j].r, pre)
    \* a copy of the object had a coalition revealed and its bounds computed, and was dropped: nothing happens to the object itself
    [] e.op = "elsewhere" -> pre

Close(a, b, tol)      == a - b <= tol /\ b - a <= tol
ColClose(f, g, tol)   == \A c \in Coals : Close(f[c], g[c], tol)
TabClose(t1, t2, tol) == t1.k = t2.k /\ ColClose(t1.lo, t2.lo, tol) /\ ColClose(t1.up, t2.up, tol)

Fail(p, name, j, cond) == IF p \in Props THEN (IF cond THEN {} ELSE {<<p, name, j>>}) ELSE {}

InIv(x, iv) == iv[1] <= x /\ x <= iv[2]

ClassOK(T, comp) == IF comp = "sam" THEN T.cls = "SAM" ELSE T.cls \in {"SA", "SAM"}

\* ---- clauses evaluated at every event, for object j --------------------------------------
StepClauses(T, i, j) ==
  LET e    == T.events[i]
      pre  == TabOf(TabsAt(T, i - 1)[j])
      post == TabOf(e.tabs[j])
      exact == T.mode = "exact"
  IN  \* C08/C17: the game object follows the specification's action (refinement)
      UNION { Fail(p, "NoException_" \o e.op, j, e.tabs[j].exc = "") : p \in Props }
      \cup Fail("C08", "Refine_" \o e.op, j, (exact /\ e.tabs[j].exc = "") => post = Apply(T, e, j, pre))
      \* (while a second game is being loaded value by value into a re-used object the table is a mixture of two games: e.mix = 1)
      \cup Fail("C01", "KnownExact", j, (T.hasHidden = 1 /\ e.mix = 0) => KnownExact(post, Arr(T.hidden)))

\* ---- clauses evaluated after compute_bounds, for object j --------------------------------
ComputeClauses(T, i, j) ==
  LET e     == T.events[i]
      o     == e.tabs[j]
      post  == TabOf(o)
      comp  == T.objs[j].comp
      r     == T.objs[j].r
      K     == Known(post)
      v     == post.up                       \* known values, read off the log itself
      hid   == Arr(T.hidden)
      exact == T.mode = "exact"
      inCls == T.hasHidden = 1 /\ ClassOK(T, comp) /\ MinimalKnown(post)
      pSound == IF comp = "sam" THEN "C04" ELSE "C01"
  IN  Fail(pSound, "Sound", j, inCls => Sound(post, hid, T.tol))
      \cup Fail(pSound, "Ordered", j, inCls => Ordered(post, T.tol))
      \* C02 tightness against the definitional layer
      \cup Fail("C02", "LowerIsBestPartition", j,
                (inCls /\ comp # "sam") => ColClose(post.lo, LowerGame(K, v), T.tol2))
      \cup Fail("C02", "UpperIsDef", j,
                (inCls /\ comp # "sam") => ColClose(post.up, UpperGame(K, v), T.tol2))
      \* C08 function of the knowledge alone
      \cup Fail("C08", "Canonical", j, (exact /\ MinimalKnown(post)) => post = Canonical(comp, r, K, v))
      \cup Fail("C08", "CanonicalQuant", j,
                ((~exact) /\ comp # "sam" /\ MinimalKnown(post)) => TabClose(post, Canonical(comp, r, K, v), T.tol2))
      \cup Fail("C08", "FreshObjectBitIdentical", j, o.fresh # 0)
      \cup Fail("C08", "RecomputeBitIdentical", j, o.idem # 0)
      \* C03 the two SA computers agree (object 1 is the reference computer)
      \cup Fail("C03", "SameAsReference", j,
                (comp \in {"sa", "sac"} /\ T.objs[1].comp \in {"sa", "sac"}) =>
                    /\ TabClose(post, TabOf(e.tabs[1]), IF exact THEN 0 ELSE 1)
                    /\ (exact => o.bits1 # 0))
      \* C04 self-consistency of the SAM approximation
      \cup Fail("C04", "LowerMonotone", j, (inCls /\ comp = "sam") => LowerMonotone(post, T.tol))
      \cup Fail("C04", "UpperCaps", j, (inCls /\ comp = "sam") => UpperCaps(post, 2 * T.tol))
      \cup Fail("C04", "NotLooserThanSA", j,
                (inCls /\ comp = "sam" /\ T.objs[1].comp \in {"sa", "sac"}) => Shrinks(TabOf(e.tabs[1]), post, T.tol))
      \cup Fail("C04", "RaisingRepetitionsNeverLoosens", j,
                (inCls /\ comp = "sam" /\ j > 1 /\ T.objs[j - 1].comp = "sam" /\ T.objs[j - 1].r <= r) =>
                    Shrinks(TabOf(e.tabs[j - 1]), post, T.tol))
      \cup Fail("C04", "RefinesModel", j, (exact /\ comp = "sam" /\ MinimalKnown(post)) => post = Canonical(comp, r, K, v))
      \* gaps of the fresh table (C07), exact numerators against the specification
      \cup Fail("C07", "GapFunctionsLeaveGameUntouched", j, o.g.pure = 1)
      \cup Fail("C07", "GapNonNegative", j,
                (inCls /\ o.g.has = 1) => (o.g.en[2] >= 0 /\ o.g.l1[2] >= 0 /\ o.g.linf[2] >= 0 /\ o.g.l2[2] >= 0))
      \cup Fail("C07", "GapRefinesSpec", j,
                (exact /\ o.g.has = 1 /\ post.k[Grand]) =>
                    /\ InIv(ExploitabilityN(post), o.g.en) /\ InIv(L1(post), o.g.l1)
                    /\ InIv(LInf(post), o.g.linf) /\ InIv(L2Sq(post), o.g.l2))
      \cup Fail("C07", "GapZeroWhenFull", j,
                (inCls /\ o.g.has = 1 /\ K = Coals) =>
                    (InIv(0, o.g.en) /\ InIv(0, o.g.l1) /\ InIv(0, o.g.linf) /\ InIv(0, o.g.l2)))

\* ---- C07: between two consecutive fresh tables with growing knowledge nothing widens ----
GrowClauses(T, i, j) ==
  LET o1 == T.events[lc].tabs[j]
      o2 == T.events[i].tabs[j]
      t1 == TabOf(o1)
      t2 == TabOf(o2)
      comp == T.objs[j].comp
      grew == /\ Known(t1) \subseteq Known(t2)
              /\ \A c \in Known(t1) : t1.up[c] = t2.up[c]
              /\ T.hasHidden = 1 /\ ClassOK(T, comp) /\ MinimalKnown(t1)
      le(iv1, iv2) == iv2[1] <= iv1[2]         \* later gap not above the earlier one (on certified intervals)
  IN  Fail("C07", "IntervalsShrink", j, grew => Shrinks(t1, t2, T.tol))
      \cup Fail("C07", "GapNonIncreasing", j,
                (grew /\ o1.g.has = 1 /\ o2.g.has = 1) =>
                   (le(o1.g.en, o2.g.en) /\ le(o1.g.l1, o2.g.l1) /\ le(o1.g.linf, o2.g.linf) /\ le(o1.g.l2, o2.g.l2)))

Failures(T, i) ==
  UNION { StepClauses(T, i, j)
          \cup (IF T.events[i].op = "compute" /\ T.events[i].tabs[j].exc = "" THEN ComputeClauses(T, i, j) ELSE {})
          \cup (IF T.events[i].op = "compute" /\ lc > 0 /\ T.events[i].tabs[j].exc = "" /\ T.events[lc].tabs[j].exc = ""
                 THEN GrowClauses(T, i, j) ELSE {})
          : j \in 1..NObj(T) }

TraceInit == tid \in 1..Len(Traces) /\ l = 0 /\ lc = 0

TraceNext ==
  LET T == Traces[tid] IN
  /\ l < Len(T.events)
  /\ l' = l + 1 /\ tid' = tid
  /\ lc' = IF T.events[l + 1].op = "compute" THEN l + 1 ELSE lc
  /\ \A f \in Failures(T, l + 1) : PrintT(<<"VERDICT", T.tid, l + 1, f[1], f[2], f[3]>>)

TraceSpec == TraceInit /\ [][TraceNext]_tvars

\* every event of every trace was consumed (no silent truncation)
TotalStates == LET RECURSIVE sum(_) sum(i) == IF i = 0 THEN 0 ELSE 1 + Len(Traces[i].events) + sum(i - 1) IN sum(Len(Traces))
AllConsumed == TLCGet("distinct") = TotalStates

\* replay mode (single trace): stop at the first failing event with a counterexample
NoFailure == l = 0 \/ Failures(Traces[tid], l) = {}
=============================================================================
