-------------------------------- MODULE Gym --------------------------------
(***************************************************************************)
(* The reveal-one-coalition environment ICG_Gym (icg_gym.py) and its       *)
(* size-aggregated wrapper ICG_Gym_Linear, as operators over an            *)
(* environment state                                                       *)
(*    [tab, steps, hid]                                                    *)
(* plus the configuration (computer, repetitions, gap, budget, initially   *)
(* known coalitions).  The hidden game is whatever the generator returned  *)
(* at the last reset; `draws` counts generator calls.                      *)
(***************************************************************************)
EXTENDS Gaps, Normalize, SequencesExt

\* explorable coalitions in the order of the action indices (increasing id)
ExplSeq(initial) == SetToSortSeq(Coals \ initial, <)

Env(tab, steps, hid) == [tab |-> tab, steps |-> steps, hid |-> hid]

\* reset(): a new game has been drawn; only the initial coalitions are known; bounds recomputed
ResetEnv(cfg, hid) == Env(Compute(cfg.comp, cfg.r, FreshTab(cfg.initial, hid)), 0, hid)

StepOutcome(cfg, e, a)   == IF e.tab.k[ExplSeq(cfg.initial)[a + 1]] THEN "AssertionError" ELSE "ok"
UnstepOutcome(cfg, e, a) == IF e.tab.k[ExplSeq(cfg.initial)[a + 1]] THEN "ok" ELSE "AssertionError"

RevealT(t, c, x) == Tab([t.k EXCEPT ![c] = TRUE], [t.lo EXCEPT ![c] = x], [t.up EXCEPT ![c] = x])
UnrevealT(t, c)  == Tab([t.k EXCEPT ![c] = FALSE], [t.lo EXCEPT ![c] = 0], [t.up EXCEPT ![c] = 0])

StepEnv(cfg, e, a) ==
  LET c == ExplSeq(cfg.initial)[a + 1]
  IN  Env(Compute(cfg.comp, cfg.r, RevealT(e.tab, c, e.hid[c])), e.steps + 1, e.hid)
UnstepEnv(cfg, e, a) ==
  LET c == ExplSeq(cfg.initial)[a + 1]
  IN  Env(Compute(cfg.comp, cfg.r, UnrevealT(e.tab, c)), e.steps - 1, e.hid)

\* ---- observations ------------------------------------------------------------------
Mask(cfg, e) == [a \in 1..Len(ExplSeq(cfg.initial)) |-> ~e.tab.k[ExplSeq(cfg.initial)[a]]]
\* numerators of the observation over the denominator Surplus(hid) (or 1 when the surplus is exactly 0)
ObsNum(cfg, e) == LET v0 == ZeroNorm(e.hid)
                  IN  [a \in 1..Len(ExplSeq(cfg.initial)) |->
                         IF e.tab.k[ExplSeq(cfg.initial)[a]] THEN v0[ExplSeq(cfg.initial)[a]] ELSE 0]
ObsDen(e) == IF ExactZeroGuard(Surplus(e.hid)) THEN 1 ELSE Surplus(e.hid)

GapN(kind, t) == CASE kind = "exploitability" -> ExploitabilityN(t)
                   [] kind = "l1_norm"        -> L1(t)
                   [] kind = "linf_norm"      -> LInf(t)
                   [] kind = "l2_norm"        -> L2Sq(t)          \* the square of the gap

DoneBy(cfg, e, degenerate) ==
                \/ (cfg.budget >= 0 /\ e.steps >= cfg.budget)
                \/ (\A a \in 1..Len(ExplSeq(cfg.initial)) : ~Mask(cfg, e)[a])
                \/ degenerate
Done(cfg, e) == DoneBy(cfg, e, AllDegenerate(e.tab))

\* ---- the size-aggregated wrapper ----------------------------------------------------
SizesOf(cfg)   == [a \in 1..Len(ExplSeq(cfg.initial)) |-> Size(ExplSeq(cfg.initial)[a])]
LinMask(cfg, e) == [k \in 0..(N - 1) |-> \E a \in 1..Len(ExplSeq(cfg.initial)) : Mask(cfg, e)[a] /\ SizesOf(cfg)[a] = k]
LinCandidates(cfg, e, k) == {a \in 1..Len(ExplSeq(cfg.initial)) : Mask(cfg, e)[a] /\ SizesOf(cfg)[a] = k}
=============================================================================
