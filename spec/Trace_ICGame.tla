---------------------------- MODULE Trace_ICGame ----------------------------
(***************************************************************************)
(* Trace validation of the game object (C17): every public operation of a  *)
(* recorded history is applied by the specification (ICGame!Do) to the     *)
(* logged pre-state of ALL live objects and compared with the logged       *)
(* post-state; the ghost meaning of "known" is carried by the spec alone.  *)
(* The outcome of every getter (value / ValueError / None / NaN) is logged *)
(* for every coalition of every object after every call.                   *)
(***************************************************************************)
EXTENDS ICGame, Json, IOUtils

CONSTANT Props
Batch  == JsonDeserialize(IOEnv.TRACE_FILE)
Traces == Batch.traces

VARIABLES tid, l, gh
tvars == <<tid, l, gh>>

TabOf(o)     == Tab([c \in Coals |-> o.k[c + 1] = 1], Arr(o.lo), Arr(o.up))
ObjsAt(T, i) == LET os == IF i = 0 THEN T.init ELSE T.events[i].objs IN [j \in 1..Len(os) |-> TabOf(os[j])]
OpOf(e) == [op |-> e.op, o |-> e.o, o2 |-> e.o2, c |-> e.c, x |-> e.x, cs |-> e.cs, xs |-> e.xs]

Fail(name, j, cond) == IF cond THEN {} ELSE {<<"C17", name, j>>}
\* behaviour beyond C17 (equality of game objects) is reported under X02, which only bin/check-extra X02 looks at
FailX(name, j, cond) == IF cond THEN {} ELSE {<<"X02", name, j>>}

GetterClauses(o, j) ==
  LET t == TabOf(o) IN
     Fail("get_value_iff_known", j, \A c \in Coals : (o.gv_ok[c + 1] = 1) <=> t.k[c])
  \cup Fail("get_value_is_value", j, \A c \in Coals : t.k[c] => (o.gv[c + 1] = t.lo[c] /\ o.gv[c + 1] = t.up[c]))
  \cup Fail("get_known_value_none_iff_unknown", j, \A c \in Coals : (o.gkv_ok[c + 1] = 1) <=> t.k[c])
  \cup Fail("get_known_value_is_value", j, \A c \in Coals : t.k[c] => o.gkv[c + 1] = t.lo[c])
  \cup Fail("get_known_values_nan_iff_unknown", j, \A c \in Coals : (o.gkvs_ok[c + 1] = 1) <=> t.k[c])
  \cup Fail("get_known_values_is_value", j, \A c \in Coals : t.k[c] => o.gkvs[c + 1] = t.lo[c])
  \cup Fail("get_values_all_raises_iff_some_unknown", j, (o.gvs_all = 1) <=> AllKnown(t))
  \cup Fail("full_iff_all_known", j, (o.full = 1) <=> AllKnown(t))
  \cup Fail("scalar_getters_agree_with_bulk", j,
            \A c \in Coals : o.sk[c + 1] = o.k[c + 1] /\ o.slo[c + 1] = o.lo[c + 1] /\ o.sup[c + 1] = o.up[c + 1])

Failures(T, i, g2) ==
  LET e    == T.events[i]
      op   == OpOf(e)
      pre  == ObjsAt(T, i - 1)
      post == ObjsAt(T, i)
      want == Do(op, pre)
  IN   \* which exception type is raised is not part of the property: only whether the call is refused
       Fail("Outcome_" \o e.op, e.o, (e.outcome = "ok") <=> (Outcome(op, pre) = "ok"))
  \cup Fail("ObjectCount", e.o, Len(post) = Len(want))
  \cup (IF Len(post) = Len(want)
        THEN UNION { Fail("Refine_" \o e.op, j, post[j] = want[j]) : j \in 1..Len(post) }
             \cup Fail("KnownIffSetAndNotSinceUnset", e.o, KnownIffMeant(post, g2))
             \cup Fail("KnownHasLowerEqUpperEqValue", e.o, KnownIsExact(post, g2))
        ELSE {})
  \cup (IF T.light = 1 THEN {} ELSE UNION { GetterClauses(e.objs[j], j) : j \in 1..Len(e.objs) })
  \* g == h compares the whole tables (known flags and both bounds); comparing with something that is not a game is refused
  \cup (IF T.light = 1 THEN {} ELSE
          FailX("EqualityIsTableEquality", e.o,
               /\ Len(e.eq) = Len(post)
               /\ \A a \in 1..Len(post) : Len(e.eq[a]) = Len(post) /\ \A b \in 1..Len(post) : (e.eq[a][b] = 1) <=> (post[a] = post[b])
               /\ \A a \in 1..Len(post) : \A b \in 1..Len(post) : e.eq[a][b] \in {0, 1})
     \cup FailX("ComparisonWithANonGameIsRefused", e.o, e.eq_other = 1))

\* traces recorded by the drivers start at a freshly constructed object; traces of the repository's tests (light) may start at a copy,
\* whose specified meaning is that of the table it was copied from
GhostOfTable(o) == LET t == TabOf(o) IN Ghost(Known(t), t.lo)
TraceInit == /\ tid \in 1..Len(Traces) /\ l = 0
             /\ gh = IF Traces[tid].light = 1 THEN <<GhostOfTable(Traces[tid].init[1])>> ELSE <<InitGhost>>

TraceNext ==
  LET T == Traces[tid] IN
  /\ l < Len(T.events)
  /\ l' = l + 1 /\ tid' = tid
  /\ gh' = DoGhost(OpOf(T.events[l + 1]), ObjsAt(T, l), gh)
  /\ \A f \in Failures(T, l + 1, gh') : PrintT(<<"VERDICT", T.tid, l + 1, f[1], f[2], f[3]>>)

TraceSpec == TraceInit /\ [][TraceNext]_tvars

TotalStates == LET RECURSIVE sum(_) sum(i) == IF i = 0 THEN 0 ELSE 1 + Len(Traces[i].events) + sum(i - 1) IN sum(Len(Traces))
AllConsumed == TLCGet("distinct") = TotalStates
=============================================================================
