---------------------------- MODULE Trace_Regret ----------------------------
(***************************************************************************)
(* C14: trace validation of GameRegretMinimizer.  One batch per (number of *)
(* players, reveal limit); one trace per constructed minimiser: the        *)
(* outcome of the constructor, the ranking tables, and after every         *)
(* iteration the current strategy, average strategy, cumulative regret and *)
(* its increment at a sample of nodes, on a 2^-10 grid (float32 state).    *)
(* For n = 3 the exact rational model is carried along and compared.       *)
(***************************************************************************)
EXTENDS Regret, Json, IOUtils, Bitwise

CONSTANT Props, Refine
Batch  == JsonDeserialize(IOEnv.TRACE_FILE)
Traces == Batch.traces
VARIABLES tid, l, R
tvars == <<tid, l, R>>

GRID == 1024
Fail(name, cond) == IF cond THEN {} ELSE {<<"C14", name>>}
AbsV(x) == IF x < 0 THEN -x ELSE x
Bits(id) == {i \in Co : (id \div (2^i)) % 2 = 1}
PopCount(id) == Cardinality(Bits(id))
SumSeq(s) == LET RECURSIVE f(_) f(i) == IF i = 0 THEN 0 ELSE s[i] + f(i - 1) IN f(Len(s))
MaxAbs(s) == IF Len(s) = 0 THEN 0 ELSE Max({AbsV(s[i]) : i \in 1..Len(s)})
\* logged grid value v (an integer number of 1/GRID) against the exact rational r, tolerance tol grid units
CloseTo(v, r, tol) == r # NaN /\ AbsV(v * r[2] - r[1] * GRID) <= tol * r[2]

ConstructClauses(T) ==
     Fail("ConstructibleForEveryLimit", T.exc = "")
  \cup (IF T.exc # "" THEN {} ELSE
       Fail("RankingIsABijectionOrderedBySize",
            /\ Len(T.rank_to_id) = NumNodes
            /\ {T.rank_to_id[r] : r \in 1..Len(T.rank_to_id)} = {IdOfNode(S) : S \in Nodes}
            /\ \A r \in 1..Len(T.rank_to_id) : T.inv[r] = r - 1
            /\ \A r \in 1..(Len(T.rank_to_id) - 1) : PopCount(T.rank_to_id[r]) <= PopCount(T.rank_to_id[r + 1]))
  \cup Fail("RankingRefinesModelOrder", Refine => \A r \in 1..NumNodes : T.rank_to_id[r] = IdOfNode(RankSeq[r])))

NodeClauses(T, it, nd, Rnext) ==
  LET used == Bits(nd.id)
      cur  == nd.cur
      tol  == c + 2
  IN   Fail("CurrentStrategyIsDistributionOnUnrevealed",
            /\ nd.cur_nan = 0
            /\ \A x \in Co : cur[x + 1] >= 0
            /\ AbsV(SumSeq(cur) - GRID) <= tol
            /\ \A x \in used : cur[x + 1] = 0)
  \cup Fail("AverageStrategyIsDistributionOnViableUnrevealed",
            /\ nd.avg_nan = 0
            /\ \A i \in 1..Len(nd.avg) : nd.avg[i] >= 0
            /\ AbsV(SumSeq(nd.avg) - GRID) <= 2^NP + 2
            /\ \A i \in 1..Len(nd.avg) : (T.viable[i] = -1 \/ T.viable[i] \in used) => nd.avg[i] = 0)
  \cup Fail("AddedRegretOrthogonalToStrategyPlayed",
            (T.plus = 0 /\ nd.has_pre = 1) =>
               AbsV(SumSeq([x \in 1..c |-> nd.pre_cur[x] * nd.dreg[x]])) <= c * (MaxAbs(nd.dreg) + GRID) * 2)
  \cup Fail("PlusKeepsCumulativeRegretNonNegative", T.plus = 1 => \A x \in 1..c : nd.reg[x] >= 0)
  \cup Fail("RefinesExactModel",
            (Refine /\ T.intq = 1 /\ Bits(nd.id) \in RMNodes) =>
               LET S == Bits(nd.id)  s == Strategy(Rnext, S) IN
               /\ \A x \in Co : CloseTo(cur[x + 1], s[x], 3)
               /\ \A x \in Co : CloseTo(nd.reg[x + 1], Rnext[S][x], 4 * it + 4))

Failures(T, i, Rnext) ==
  IF i = 1 THEN ConstructClauses(T)
                \* strategies of the fresh minimiser (no iteration yet), read right after construction
           \cup (IF T.exc # "" THEN {} ELSE
                    Fail("IterationNoException", T.events[1].exc = "")
               \cup UNION {NodeClauses(T, 0, T.events[1].nodes[k], Rnext) : k \in 1..Len(T.events[1].nodes)}
               \cup Fail("SavedThenLoadedContinuesIdentically", T.events[1].saveload # 0))
  ELSE LET e == T.events[i] IN
          Fail("IterationNoException", e.exc = "")
     \cup (IF e.exc # "" THEN {} ELSE UNION {NodeClauses(T, i - 1, e.nodes[k], Rnext) : k \in 1..Len(e.nodes)})
     \cup Fail("SavedThenLoadedContinuesIdentically", e.saveload # 0)

QOf(e) == [nd \in Leaves |-> IF \E k \in 1..Len(e.leaf_ids) : e.leaf_ids[k] = IdOfNode(nd)
                             THEN e.leaf_vals[CHOOSE k \in 1..Len(e.leaf_ids) : e.leaf_ids[k] = IdOfNode(nd)] ELSE 0]

TraceInit == tid \in 1..Len(Traces) /\ l = 0 /\ R = ZeroTab
TraceNext ==
  LET T == Traces[tid] IN
  /\ l < Len(T.events) /\ l' = l + 1 /\ tid' = tid
  /\ R' = IF Refine /\ T.intq = 1 /\ l + 1 >= 2 /\ T.events[l + 1].exc = "" THEN NextRegret(R, QOf(T.events[l + 1]), T.plus = 1) ELSE R
  /\ \A f \in Failures(T, l + 1, R') : PrintT(<<"VERDICT", T.tid, l + 1, f[1], f[2], 0>>)
TraceSpec == TraceInit /\ [][TraceNext]_tvars
TotalStates == LET RECURSIVE sum(_) sum(i) == IF i = 0 THEN 0 ELSE 1 + Len(Traces[i].events) + sum(i - 1) IN sum(Len(Traces))
AllConsumed == TLCGet("distinct") = TotalStates
=============================================================================
