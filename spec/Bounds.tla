------------------------------ MODULE Bounds ------------------------------
(***************************************************************************)
(* Algorithmic layer of bounds.py, one operator per loop of the code.      *)
(* A table is a record [k, lo, up] of functions over Coals: the known      *)
(* flag, the lower and the upper column of IncompleteCooperativeGame.      *)
(* Every computer rewrites the table IN PLACE and reads entries written    *)
(* earlier in the same call; the operators below take the stale table as   *)
(* argument so that this is modelled, not assumed away.                    *)
(***************************************************************************)
EXTENDS GameTheory

Tab(k, lo, up) == [k |-> k, lo |-> lo, up |-> up]
Known(t)   == {c \in Coals : t.k[c]}
Unknown(t) == Coals \ Known(t)
MinimalKnown(t) == Minimal \subseteq Known(t)

\* the table right after IncompleteCooperativeGame.__init__ / _init_values
InitTab == Tab([c \in Coals |-> c = 0], [c \in Coals |-> 0], [c \in Coals |-> 0])

\* set_known_values(vals on K): everything forgotten, then K set  (game.py)
FreshTab(K, v) == Tab([c \in Coals |-> c \in K \/ c = 0],
                      [c \in Coals |-> IF c \in K THEN v[c] ELSE 0],
                      [c \in Coals |-> IF c \in K THEN v[c] ELSE 0])

\* ---- lower pass: unknown coalitions by increasing size, reading the column being written ----
\* withSelf = FALSE: strict non-empty sub-coalitions (relation code 1);
\* withSelf = TRUE : the coalition itself is a candidate too (codes 1 and 0) -- SAM iterations >= 1
SALevel(k, K, lo, withSelf) == TLCEval(
  [c \in Coals |->
     IF c \in K \/ Size(c) # k THEN lo[c]
     ELSE LET parts == IF withSelf THEN Subs(c) \ {0} ELSE ProperSubs(c)
          IN  Max({ lo[s] + lo[c - s] : s \in parts })])

RECURSIVE SALevels(_, _, _, _)
SALevels(k, K, lo, withSelf) ==
  IF k > N THEN lo ELSE SALevels(k + 1, K, SALevel(k, K, lo, withSelf), withSelf)

\* ---- upper pass of the two superadditive computers ----------------------------------
\* the uncached computer reads get_values(known supersets) = their UPPER column,
\* the cached one reads their LOWER column; for a known coalition both are its value.
SAUpperCol(t, lo, useUpperCol) == TLCEval(
  [c \in Coals |->
     IF t.k[c] THEN t.up[c]
     ELSE LET ks == {s \in StrictSupers(c) : t.k[s]}
          IN  Min({ (IF useUpperCol THEN t.up[s] ELSE lo[s]) - lo[s - c] : s \in ks })])

ComputeSA(t) ==            \* compute_bounds_superadditive
  LET lo == SALevels(1, Known(t), t.lo, FALSE)
  IN  Tab(t.k, lo, SAUpperCol(t, lo, TRUE))

ComputeSACached(t) ==      \* compute_bounds_superadditive_cached
  LET lo == SALevels(1, Known(t), t.lo, FALSE)
  IN  Tab(t.k, lo, SAUpperCol(t, lo, FALSE))

\* ---- superadditive-monotone approximation ------------------------------------------
\* monotone pass: unknown coalitions in (size, id) order, each reading the column being written.
\* Supersets are strictly larger, hence processed later: the pass reads the values left by the
\* superadditive pass, so one simultaneous update is the same thing.
MonoPass(K, lo) == TLCEval(
  [c \in Coals |-> IF c \in K THEN lo[c] ELSE Max({ lo[s] : s \in Supers(c) })])

RECURSIVE SamIter(_, _, _, _)
SamIter(i, r, K, lo) ==
  IF i > r THEN lo ELSE SamIter(i + 1, r, K, MonoPass(K, SALevels(1, K, lo, i > 0)))

SAMUpperCol(t, lo) == TLCEval(
  [c \in Coals |->
     IF t.k[c] THEN t.up[c]
     ELSE LET ks  == {s \in StrictSupers(c) : t.k[s]}
              sub == {s \in ProperSubs(c) : t.k[s]}
          IN  Min({ lo[s] - lo[s - c] : s \in ks } \cup { t.up[s] : s \in sub })])

ComputeSAM(t, r) ==        \* compute_bounds_superadditive_monotone_approx_cached(repetitions = r)
  LET lo == SamIter(0, r, Known(t), t.lo)
  IN  Tab(t.k, lo, SAMUpperCol(t, lo))

\* iterate to the fixpoint of the SAM lower column (for the registered r = 100, 1000)
RECURSIVE SamFix(_, _, _, _)
SamFix(i, r, K, lo) ==
  IF i > r THEN lo
  ELSE LET nx == MonoPass(K, SALevels(1, K, lo, i > 0))
       IN  IF i > 0 /\ nx = lo THEN lo ELSE SamFix(i + 1, r, K, nx)
ComputeSAMFix(t, r) ==
  LET lo == SamFix(0, r, Known(t), t.lo)
  IN  Tab(t.k, lo, SAMUpperCol(t, lo))

Compute(comp, r, t) ==
  CASE comp = "sa"  -> ComputeSA(t)
    [] comp = "sac" -> ComputeSACached(t)
    [] comp = "sam" -> ComputeSAMFix(t, r)

\* ---- what the bounds must be as a function of the knowledge alone (C02, C08) -------------
\* "A function of the knowledge alone" = what the computer yields from a table that holds nothing else.
Canonical(comp, r, K, v) == Compute(comp, r, FreshTab(K, v))
\* For superadditive known values the SA bounds are the extreme completions (C02):
CanonicalSA(K, v) == Tab([c \in Coals |-> c \in K], LowerGame(K, v), UpperGame(K, v))

\* ---- property formulas on a table (C01, C04, C07) -------------------------------------
Sound(t, hid, tol)   == \A c \in Coals : t.lo[c] <= hid[c] + tol /\ hid[c] <= t.up[c] + tol
Ordered(t, tol)      == \A c \in Coals : t.lo[c] <= t.up[c] + tol
KnownExact(t, hid)   == \A c \in Known(t) : t.lo[c] = hid[c] /\ t.up[c] = hid[c]
Shrinks(t1, t2, tol) == \A c \in Coals : t2.lo[c] + tol >= t1.lo[c] /\ t2.up[c] <= t1.up[c] + tol
LowerMonotone(t, tol) == \A c \in Coals : \A s \in Subs(c) : t.lo[s] + tol >= t.lo[c]
UpperCaps(t, tol)    == \A c \in Unknown(t) :
                          /\ \A s \in ProperSubs(c) : t.k[s] => t.up[c] <= t.up[s] + tol
                          /\ \A s \in StrictSupers(c) : t.k[s] => t.up[c] <= t.up[s] - t.lo[s - c] + tol
=============================================================================
