SPECIFICATION Spec
CONSTANTS
  N = 2
  Vals = {0, 1}
  MaxObj = 2
  MaxDepth = 3
  MaxList = 2
INVARIANT KnownIffMeantInv
INVARIANT KnownIsExactInv
INVARIANT EmptyKnownZero
INVARIANT NegInvolution
INVARIANT NegSwaps
PROPERTY CopyIndependent
PROPERTY BulkBoundsRespectKnown
VIEW View
CHECK_DEADLOCK FALSE
