.PHONY: setup
setup:
	mkdir -p /verif/evidence /verif/replays /verif/.work
	/verif/bin/setup
