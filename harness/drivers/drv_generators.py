"""Driver for C10: every registered generator x player counts x seeds, two identically seeded calls back to back and a third one later."""
from __future__ import annotations

import argparse

import numpy as np

import drvlib as D
from incomplete_cooperative.generators import GENERATORS
from incomplete_cooperative.normalize import normalize_game

SAM_PREFIXES = ("xos", "xs", "oxs", "k_budget", "covg")


def main():
    ap = argparse.ArgumentParser()
    ap.add_argument("--out", required=True)
    ap.add_argument("--seed", type=int, default=0)
    ap.add_argument("--ns", default="3,4,5,6")
    ap.add_argument("--seeds", default="3", help="seeds per (name, n): one number or a comma list aligned with --ns")
    a = ap.parse_args()
    files = []
    tid = 0
    names = [k for k in GENERATORS if k != "convex"]
    ns = [int(x) for x in a.ns.split(",")]
    seeds_per_n = [int(x) for x in str(a.seeds).split(",")]
    seeds_per_n += [seeds_per_n[-1]] * (len(ns) - len(seeds_per_n))
    for n, nseeds in zip(ns, seeds_per_n):
        traces = []
        deferred = []
        for name in names:
            for s in range(nseeds):
                tid += 1
                seed = a.seed * 100003 + s * 7919 + n
                t = {"tid": tid, "name": name, "n": n, "seed": seed, "exc": "", "v": [], "v2": [], "players": 0, "empty_zero": 0, "float64": 0,
                     "same_bits": 0, "tol": 2, "sam_prefix": int(name.startswith(SAM_PREFIXES))}
                try:
                    g1 = GENERATORS[name](n, np.random.default_rng(seed))
                    v1 = np.array(g1.get_values(), copy=True)
                    # what the caller does with a returned game must not leak into later calls: the first result is changed in place
                    try:
                        if s % 2 == 0:
                            normalize_game(g1)
                        elif hasattr(g1, "set_values"):
                            g1.set_values(np.zeros(2 ** n) + 7.0)
                        else:
                            g1._graph_matrix *= 0.0
                    except Exception:  # noqa: BLE001
                        pass
                    g2 = GENERATORS[name](n, np.random.default_rng(seed))
                    v2 = np.asarray(g2.get_values())
                    mx = max(1e-9, float(np.max(np.abs(v1))), float(np.max(np.abs(v2))))
                    grid = 2.0 ** 16 / D.pow2_at_least(mx)
                    t["v"] = D.quant_arr(v1, grid)
                    t["v2"] = D.quant_arr(v2, grid)
                    t["players"] = int(g1.number_of_players)
                    t["empty_zero"] = int(float(v1[0]) == 0.0)
                    t["float64"] = int(v1.dtype == np.float64)
                    t["same_bits"] = int(v1.tobytes() == v2.tobytes())
                    deferred.append((t, name, seed, v1))
                except D.DriverError:
                    t["exc"] = "UnloggableOutput"         # non-finite or absurdly large values returned by the generator
                    t["v"] = [0] * 2 ** n
                    t["v2"] = [0] * 2 ** n
                except Exception as ex:  # noqa: BLE001
                    t["exc"] = type(ex).__name__
                    t["v"] = [0] * 2 ** n
                    t["v2"] = [0] * 2 ** n
                traces.append(t)
        # a third identically seeded call once every other name and seed at this player count has intervened (in reverse order): state a
        # generator keeps for the life of the process (memoised layouts, scratch vectors) must not leak from one call into the next
        for t, name, seed, v1 in reversed(deferred):
            try:
                v3 = np.asarray(GENERATORS[name](n, np.random.default_rng(seed)).get_values())
                if v1.tobytes() != v3.tobytes():
                    t["same_bits"] = 0
                    t["later_call_differs"] = 1
            except Exception as ex:  # noqa: BLE001
                if not t["exc"]:
                    t["exc"] = "Later" + type(ex).__name__
        path = f"{a.out}_gen_n{n}.json"
        D.dump(path, {"traces": traces})
        files.append({"n": n, "path": path, "traces": len(traces), "events": 2 * len(traces),
                      "sample": {k: traces[-1][k] for k in ("name", "seed", "v", "same_bits")}})
    D.finish({"files": files, "events": sum(f["events"] for f in files), "names": len(names)})


if __name__ == "__main__":
    main()
