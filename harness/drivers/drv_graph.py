"""Driver for GraphCooperativeGame (beyond the listed properties, X02): construction from integer weight matrices (lower triangle and
diagonal filled with junk), values, negation, addition, copy, equality with graph games / tabulated games / non-games."""
from __future__ import annotations

import argparse
import random

import numpy as np

import drvlib as D
from incomplete_cooperative.coalitions import Coalition, all_coalitions
from incomplete_cooperative.game import IncompleteCooperativeGame
from incomplete_cooperative.graph_game import GraphCooperativeGame
from incomplete_cooperative.normalize import normalize_game


def ints(a):
    out = []
    for x in np.asarray(a, dtype=np.float64).ravel():
        if float(x) != round(float(x)) or abs(x) > 10 ** 7:
            return None
        out.append(int(round(float(x))))
    return out


def one_trace(tid, n, rng):
    NC = 2 ** n
    a = [[rng.randint(-3, 6) for _ in range(n)] for _ in range(n)]
    kind = rng.randrange(4)
    if kind == 0:
        b = [row[:] for row in a]                                   # same matrix
    elif kind == 1:                                                 # same upper triangle, other junk below
        b = [[a[i][j] if j > i else rng.randint(-3, 6) for j in range(n)] for i in range(n)]
    else:
        b = [[rng.randint(-3, 6) for _ in range(n)] for _ in range(n)]
    t = {"tid": tid, "n": n, "a": a, "b": b, "exc": "", "vals": [0] * NC, "sub": [], "subvals": [], "arg_untouched": 0, "neg": [0] * NC, "sum": [0] * NC,
         "copy_eq": 0, "copy_indep": 0, "eq_ab": 0, "eq_table": 0, "table": [0] * NC, "eq_other": 0}
    try:
        arg = np.array(a, dtype=np.float64)
        keep = arg.copy()
        ga = GraphCooperativeGame(arg)
        gb = GraphCooperativeGame(np.array(b, dtype=np.float64))
        t["arg_untouched"] = int(np.array_equal(arg, keep))
        vals = ints(ga.get_values())
        if vals is None or len(vals) != NC:
            raise ValueError("values")
        t["vals"] = vals
        sub = [rng.randrange(NC) for _ in range(rng.randint(0, 5))]
        t["sub"] = sub
        sv = ints(ga.get_values(Coalition(c) for c in sub)) if sub else []
        one = [ints([ga.get_value(Coalition(c))])[0] for c in sub]
        t["subvals"] = sv if sv == one else [10 ** 6] * len(sub)     # the scalar and the list form must agree
        t["neg"] = ints((-ga).get_values())
        t["sum"] = ints((ga + gb).get_values())
        cp = ga.copy()
        t["copy_eq"] = int(bool(cp == ga) and bool(ga == cp))
        normalize_game(cp)                                           # mutates the copy's matrix in place
        t["copy_indep"] = int(ints(ga.get_values()) == vals)
        t["eq_ab"] = int(bool(ga == gb))
        # a tabulated game: the same values, or the values with one entry moved
        table = list(vals)
        if rng.random() < 0.5:
            c = rng.randrange(NC)
            table[c] += rng.choice([-1, 1])
        tg = IncompleteCooperativeGame(n)
        tg.set_values(np.array(table, dtype=np.float64))
        t["table"] = table
        t["eq_table"] = int(bool(ga == tg))
        try:
            ga == 5
        except AttributeError:
            t["eq_other"] = 1
        if not (ints((-(-ga)).get_values()) == vals and len(list(all_coalitions(ga))) == NC):
            t["neg"] = [10 ** 6] * NC
    except D.DriverError:
        raise
    except Exception as ex:  # noqa: BLE001
        t["exc"] = type(ex).__name__
    return t


def main():
    ap = argparse.ArgumentParser()
    ap.add_argument("--out", required=True)
    ap.add_argument("--seed", type=int, default=0)
    ap.add_argument("--ns", default="2,3,4,5")
    ap.add_argument("--count", type=int, default=30)
    a = ap.parse_args()
    rng = random.Random(a.seed * 6151 + 17)
    files, tid = [], 0
    for n in [int(x) for x in a.ns.split(",")]:
        traces = []
        for _ in range(a.count):
            tid += 1
            traces.append(one_trace(tid, n, rng))
        path = f"{a.out}_graph_n{n}.json"
        D.dump(path, {"traces": traces})
        files.append({"n": n, "path": path, "traces": len(traces), "events": len(traces),
                      "sample": {k: traces[0][k] for k in ("a", "b", "vals", "eq_ab", "eq_table")}})
    D.finish({"files": files, "events": sum(f["events"] for f in files)})


if __name__ == "__main__":
    main()
