"""Driver for C14: GameRegretMinimizer constructed for every (n, limit), iterated with non-negative terminal values, observed through its
public methods after every iteration; save -> load -> continue."""
from __future__ import annotations

import argparse
import math
import random
import shutil
from itertools import combinations
from pathlib import Path

import numpy as np

import drvlib as D
from incomplete_cooperative.coalitions import Coalition, all_coalitions
from incomplete_cooperative.regret import GameRegretMinimizer

GRID = 1024.0


def q(a):
    out = []
    nan = 0
    for x in np.asarray(a, dtype=np.float64).ravel():
        if not math.isfinite(x):
            nan = 1
            out.append(0)
        else:
            out.append(max(-10 ** 7, min(10 ** 7, int(round(float(x) * GRID)))))
    return out, nan


def one_trace(tid, n, L, plus, rng, iters, root: Path, integer_terminals: bool, max_nodes=24):
    viable = [x.id for x in all_coalitions(n) if len(x) not in [0, 1, n]]
    c = len(viable)
    vmap = [-1] * 2 ** n
    for i, cid in enumerate(viable):
        vmap[cid] = i
    t = {"tid": tid, "n": n, "L": L, "plus": int(plus), "c": c, "exc": "", "rank_to_id": [], "inv": [], "viable": vmap, "intq": int(integer_terminals), "events": []}
    ev0 = {"kind": "construct", "exc": "", "nodes": [], "leaf_ids": [], "leaf_vals": [], "saveload": -1}
    t["events"].append(ev0)
    try:
        rm = GameRegretMinimizer(n, L, plus)
    except Exception as ex:  # noqa: BLE001
        t["exc"] = type(ex).__name__
        return t
    r2i = [int(x) for x in rm.meta_rank_to_id]
    if len(r2i) <= 4000:
        t["rank_to_id"] = r2i
        t["inv"] = [int(rm.meta_id_to_rank[i]) for i in r2i]
    else:                                   # very large trees: a prefix, the tail and a random sample keep the batch small
        t["rank_to_id"] = r2i
        t["inv"] = [int(rm.meta_id_to_rank[i]) for i in r2i]
    lim = min(L, c)
    leaves = [s for s in combinations(range(c), lim)]
    nrm = int(rm.number_of_regret_minimizers)
    rm_nodes = [r2i[r] for r in range(min(nrm, len(r2i)))]
    prev_reg = np.array(rm.cumulative_regret, dtype=np.float64)
    # "after any number of iterations" includes none: the strategies of a fresh minimiser (uniform over what is not yet revealed; the
    # average strategy of a node that was never reached takes a separate branch of the code)
    try:
        fresh = [rm_nodes[0]] + (rm_nodes[1:] if len(rm_nodes) <= max_nodes else rng.sample(rm_nodes[1:], max_nodes - 1)) if rm_nodes else []
        for nid in fresh:
            rank = int(rm.meta_id_to_rank[nid])
            cur, cn = q(rm.regret_matching_strategy(int(nid)))
            members = [Coalition(viable[i]) for i in range(c) if nid >> i & 1]
            rng.shuffle(members)
            if q(rm.regret_matching_strategy(iter(members)))[0] != cur or q(rm.regret_matching_strategy(tuple(members)))[0] != cur:
                cn = 1
            avg, an = q(rm.get_average_strategy(iter(members)))
            reg, _ = q(prev_reg[rank])
            ev0["nodes"].append({"id": int(nid), "cur": cur, "cur_nan": cn, "avg": avg, "avg_nan": an, "reg": reg, "dreg": [0] * len(reg),
                                 "pre_cur": cur, "has_pre": 0})
        if not np.array_equal(np.array(rm.cumulative_regret, dtype=np.float64), prev_reg, equal_nan=True):
            ev0["saveload"] = 0
    except Exception as ex:  # noqa: BLE001
        ev0["exc"] = type(ex).__name__
    for it in range(iters):
        ev = {"kind": "iterate", "exc": "", "nodes": [], "leaf_ids": [], "leaf_vals": [], "saveload": -1}
        vals = [float(rng.randint(0, 4)) if integer_terminals else rng.randint(0, 32) / 8.0 for _ in leaves]
        if not integer_terminals and rng.random() < 0.3:
            keep = [rng.random() < 0.7 for _ in leaves]     # some leaves get no terminal value (they count as 0)
        else:
            keep = [True] * len(leaves)
        order = [j for j, k in enumerate(keep) if k]
        rng.shuffle(order)                                   # terminal nodes are listed in a different order in every iteration
        used = [[Coalition(viable[i]) for i in rng.sample(leaves[j], len(leaves[j]))] for j in order]
        tv = np.array([vals[j] for j in order], dtype=np.float32)
        ev["leaf_ids"] = [sum(2 ** i for i in leaves[j]) for j in order]
        ev["leaf_vals"] = [int(vals[j]) if integer_terminals else 0 for j in order]
        sample = [rm_nodes[0]] + (rm_nodes[1:] if len(rm_nodes) <= max_nodes else rng.sample(rm_nodes[1:], max_nodes - 1)) if rm_nodes else []
        pre_cur = {}
        try:
            for nid in sample:
                pre_cur[nid] = np.array(rm.regret_matching_strategy(int(nid)), dtype=np.float64)
            if it >= 1:              # checkpoint -> load -> both continue with the same terminal values; checkpoints are repeated
                # into the SAME directory as a long run does, and for every other trace into a directory shared by all traces
                # (it then holds an older checkpoint of another minimiser)
                p = root / (f"rm{tid}" if tid % 2 else "shared_checkpoint")
                if it == 1 and tid % 2:
                    shutil.rmtree(p, ignore_errors=True)
                rm.save(p)
                twin = GameRegretMinimizer.load(p)
                twin.regret_min_iteration(tv.copy(), used)
            else:
                twin = None
            rm.regret_min_iteration(tv, used)
            if twin is not None:
                same = (np.array_equal(twin.cumulative_regret, rm.cumulative_regret, equal_nan=True)
                        and np.array_equal(twin.cumulative_strategy, rm.cumulative_strategy, equal_nan=True) and twin.iteration == rm.iteration
                        and twin.cumulative_regret.dtype == rm.cumulative_regret.dtype
                        and (twin.number_of_players, twin.limit_of_revealed, bool(twin.plus)) == (rm.number_of_players, rm.limit_of_revealed, bool(rm.plus)))
                ev["saveload"] = int(same)
            reg_now = np.array(rm.cumulative_regret, dtype=np.float64)
            for nid in sample:
                rank = int(rm.meta_id_to_rank[nid])
                cur, cn = q(rm.regret_matching_strategy(int(nid)))
                members = [Coalition(viable[i]) for i in range(c) if nid >> i & 1]
                rng.shuffle(members)
                cur_list_form, _ = q(rm.regret_matching_strategy(list(members)))     # the same node given as a list of coalitions
                cur_iter_form, _ = q(rm.regret_matching_strategy(c_ for c_ in members))   # ... and as a one-shot generator
                if cur_list_form != cur or cur_iter_form != cur:
                    cn = 1
                avg, an = q(rm.get_average_strategy(members))
                reg, _ = q(reg_now[rank])
                dreg, _ = q(reg_now[rank] - prev_reg[rank])
                pc, pn = q(pre_cur[nid])
                ev["nodes"].append({"id": int(nid), "cur": cur, "cur_nan": cn, "avg": avg, "avg_nan": an, "reg": reg, "dreg": dreg,
                                    "pre_cur": pc, "has_pre": int(pn == 0)})
            if not (np.array_equal(np.array(rm.cumulative_regret, dtype=np.float64), reg_now, equal_nan=True)):
                ev["saveload"] = 0                           # reading strategies changed the regrets: reported with the continuation clause
            prev_reg = reg_now
        except Exception as ex:  # noqa: BLE001
            ev["exc"] = type(ex).__name__
        t["events"].append(ev)
    return t


def main():
    ap = argparse.ArgumentParser()
    ap.add_argument("--out", required=True)
    ap.add_argument("--seed", type=int, default=0)
    ap.add_argument("--configs", required=True, help="n:L,n:L,...")
    ap.add_argument("--iters", type=int, default=3)
    a = ap.parse_args()
    rng = random.Random(a.seed * 911 + 13)
    root = Path(a.out + "_dir")
    root.mkdir(parents=True, exist_ok=True)
    files = []
    tid = 0
    for cfg in a.configs.split(","):
        n, L = [int(x) for x in cfg.split(":")]
        traces = []
        for plus in (False, True):
            for integer_terminals in ([True, False] if n == 3 else [False]):
                tid += 1
                iters = (2 if integer_terminals else a.iters) if n < 5 else 1
                traces.append(one_trace(tid, n, L, plus, rng, iters, root, integer_terminals))
        path = f"{a.out}_regret_n{n}_L{L}.json"
        D.dump(path, {"traces": traces})
        files.append({"n": n, "L": L, "path": path, "traces": len(traces), "events": sum(len(t["events"]) for t in traces),
                      "sample": {"n": n, "L": L, "exc": traces[0]["exc"], "rank_to_id": traces[0]["rank_to_id"][:12],
                                 "first_node": traces[0]["events"][1]["nodes"][:1] if len(traces[0]["events"]) > 1 else []}})
    shutil.rmtree(root, ignore_errors=True)
    D.finish({"files": files, "events": sum(f["events"] for f in files)})


if __name__ == "__main__":
    main()
