"""Driver for the multiplicative module (specification growth beyond the listed properties)."""
from __future__ import annotations

import argparse
import random

import numpy as np

import drvlib as D
from incomplete_cooperative.coalitions import Coalition
from incomplete_cooperative.game import IncompleteCooperativeGame
from incomplete_cooperative.generators import covg_fn_generator, k_budget_generator
from incomplete_cooperative.multiplicative.max_xos_approximation import compute_max_xos_approximation
from incomplete_cooperative.multiplicative.multiplicative_factor import (mul_factor_lower_upper_bound, mul_factor_to_approximation,
                                                                         mul_factor_to_lower_bound, mul_factor_upper_to_approximation)

GRID = 65536.0


def full(n, v):
    g = IncompleteCooperativeGame(n)
    g.set_values(np.array(v, dtype=np.float64))
    return g


def bounds(n, lo, up):
    g = IncompleteCooperativeGame(n)
    g.set_lower_bounds(np.array(lo, dtype=np.float64))
    g.set_upper_bounds(np.array(up, dtype=np.float64))
    return g


def main():
    ap = argparse.ArgumentParser()
    ap.add_argument("--out", required=True)
    ap.add_argument("--seed", type=int, default=0)
    ap.add_argument("--ns", default="3,4")
    ap.add_argument("--count", type=int, default=20)
    a = ap.parse_args()
    rng = random.Random(a.seed * 77 + 5)
    files = []
    tid = 0
    for n in [int(x) for x in a.ns.split(",")]:
        NC = 2 ** n
        traces = []
        for j in range(a.count):
            den = [0] + [rng.randint(1, 9) for _ in range(NC - 1)]
            num = [0] + [d + rng.randint(0, 12) for d in den[1:]]
            kind = j % 5
            if kind == 4:                                     # a violated precondition somewhere
                c = rng.randrange(1, NC)
                if rng.random() < 0.5:
                    den[c] = 0
                else:
                    num[c] = den[c] - 1
            which = j % 4
            tid += 1
            t = {"tid": tid, "kind": "factor", "which": which, "num": num, "den": den, "exc": "", "out": 0, "v": [], "apx": [], "queried": []}
            try:
                if which == 0:
                    f = mul_factor_to_approximation(full(n, num), full(n, den))
                elif which == 1:
                    f = mul_factor_upper_to_approximation(full(n, den), bounds(n, [0] * NC, num))
                elif which == 2:
                    f = mul_factor_to_lower_bound(full(n, num), bounds(n, den, num))
                else:
                    f = mul_factor_lower_upper_bound(bounds(n, den, num))
                t["out"] = D.quant_int(f, GRID)
            except AssertionError:
                t["exc"] = "AssertionError"
            except Exception as ex:  # noqa: BLE001
                t["exc"] = type(ex).__name__
            traces.append(t)
        for j in range(max(4, a.count // 3)):
            tid += 1
            gen = [covg_fn_generator, k_budget_generator][j % 2]
            g = gen(n, np.random.default_rng(a.seed * 13 + tid))
            vals = -g.get_values()
            vals = vals / np.min(vals[[2 ** i for i in range(n)]])          # singleton values >= 1, as the algorithm requires
            game = full(n, vals)
            t = {"tid": tid, "kind": "maxxos", "which": 0, "num": [], "den": [], "exc": "", "out": 0, "v": D.quant_arr(vals, GRID), "apx": [], "queried": []}
            try:
                queried, apx = compute_max_xos_approximation(game)
                t["apx"] = D.quant_arr(apx.get_values(), GRID)
                t["queried"] = [int(x) for x in queried]
            except Exception as ex:  # noqa: BLE001
                t["exc"] = type(ex).__name__
                t["apx"] = [0] * NC
            traces.append(t)
        path = f"{a.out}_mul_n{n}.json"
        D.dump(path, {"traces": traces})
        files.append({"n": n, "path": path, "traces": len(traces), "events": len(traces), "sample": {k: traces[0][k] for k in ("kind", "which", "num", "den", "out", "exc")}})
    D.finish({"files": files, "events": sum(f["events"] for f in files)})


if __name__ == "__main__":
    main()
