"""Driver for normalize_game / denormalize_game (C15): exact-domain games and every registered generator family,
value-table and graph representations."""
from __future__ import annotations

import argparse
import math
import random

import numpy as np

import drvlib as D
from incomplete_cooperative.coalitions import Coalition
from incomplete_cooperative.game import IncompleteCooperativeGame
from incomplete_cooperative.generators import GENERATORS
from incomplete_cooperative.graph_game import GraphCooperativeGame
from incomplete_cooperative.normalize import denormalize_game, normalize_game

ONE = 2 ** 20


def table_of(n, values):
    g = IncompleteCooperativeGame(n)
    g.set_values(np.array(values, dtype=np.float64))
    return g


def cond_exp(scale, d):
    if d == 0:
        return 99
    return max(0, min(98, math.floor(math.log2(scale / abs(d)))))


def one_trace(tid, n, game, mode, family):
    """game: an IncompleteCooperativeGame (fully known) or a GraphCooperativeGame; normalised in place on a copy."""
    orig = np.array(game.get_values(), dtype=np.float64)
    maxabs = max(1e-12, float(np.max(np.abs(orig))))
    t = {"tid": tid, "n": n, "mode": mode, "family": family, "rep": "graph" if isinstance(game, GraphCooperativeGame) else "table",
         "exc": "", "v": [], "out": [], "zero": [], "one_grand": 0, "surplus": [0, 0], "singles": [], "cond_e": 0, "den_err": 0,
         "hasg": 0, "gout": [], "scale": 0}
    singles = [orig[2 ** i] for i in range(n)]
    d_true = orig[-1] - math.fsum(singles)
    if mode == "exact":
        scale = 1
        while any(float(x) * scale != round(float(x) * scale) for x in orig):
            scale *= 2
            if scale > 2 ** 44:
                raise D.DriverError("not dyadic")
        t["scale"] = scale
        t["v"] = D.exact_arr(orig, scale)
        d_int = t["v"][-1] - sum(t["v"][2 ** i] for i in range(n))
        den = d_int if d_int != 0 else scale
        outiv = lambda a: [D.interval(float(x), den, rel_ulps=4, mag=1.0, tight=True) for x in a]  # noqa: E731
        t["cond_e"] = cond_exp(maxabs, d_int / scale)
    else:
        p2 = D.pow2_at_least(maxabs)
        t["v"] = D.quant_arr(orig, 2.0 ** 16 / p2)
        outiv = lambda a: [[D.quant_int(x, float(ONE))] * 2 for x in a]  # noqa: E731
        t["cond_e"] = cond_exp(p2, d_true)
    try:
        work = game.copy()
        info = normalize_game(work)
        out = np.array(work.get_values(), dtype=np.float64)
        if not np.array_equal(np.array(game.get_values(), dtype=np.float64), orig):
            t["den_err"] = 2 ** 30                       # normalising a copy changed the original: reported through the inverse clause
        if not np.all(np.isfinite(out)) or np.max(np.abs(out)) > 1000:
            # far outside [0,1]: keep the trace on the grid so that the range clause reports it
            out = np.clip(np.nan_to_num(out, nan=999.0, posinf=999.0, neginf=-999.0), -999.0, 999.0)
        t["out"] = outiv(out)
        t["zero"] = [int(float(x) == 0.0) for x in out]
        t["one_grand"] = int(float(out[-1]) == 1.0)
        if mode == "exact":
            t["surplus"] = D.interval(float(info[0]), t["scale"], rel_ulps=4 * n, mag=maxabs * n, tight=True)
            try:
                t["singles"] = D.exact_arr(info[1], t["scale"])
            except D.DriverError:
                t["singles"] = [10 ** 7] * n          # norm info outside the exact domain: fails the NormInfo clause
        else:
            t["singles"] = [0] * n
        den_game = work.copy()
        denormalize_game(den_game, info)
        back = np.array(den_game.get_values(), dtype=np.float64)
        err = float(np.max(np.abs(back - orig)))
        t["den_err"] = max(t["den_err"], min(2 ** 30, math.ceil(err / (2.0 ** -52 * D.pow2_at_least(maxabs)))))
        if isinstance(game, GraphCooperativeGame):       # the tabulated form of the same game must normalise alike
            twin = table_of(n, orig)
            normalize_game(twin)
            t["hasg"] = 1
            t["gout"] = outiv(np.array(twin.get_values(), dtype=np.float64))
    except D.DriverError:
        raise
    except Exception as ex:  # noqa: BLE001
        t["exc"] = type(ex).__name__
        t["out"] = [[0, 0]] * 2 ** n
        t["zero"] = [0] * 2 ** n
        t["singles"] = [0] * n
    return t


def main():
    ap = argparse.ArgumentParser()
    ap.add_argument("--out", required=True)
    ap.add_argument("--seed", type=int, default=0)
    ap.add_argument("--ns", default="3,4,5")
    ap.add_argument("--exact", type=int, default=30)
    ap.add_argument("--families", default="")
    ap.add_argument("--seeds", type=int, default=3)
    a = ap.parse_args()
    rng = random.Random(a.seed * 8191 + 3)
    files = []
    tid = 0
    fams = [f for f in a.families.split(",") if f]
    skipped = 0
    genfail = 0
    for n in [int(x) for x in a.ns.split(",")]:
        traces = []
        if n <= 2:
            # one and two players (singleton ids 1 / 1, 2 are CONSECUTIVE there; seed C15-e): every small integer / dyadic game
            for j in range(max(8, a.exact // 2)):
                tid += 1
                sing = [rng.randint(-4, 6) / rng.choice([1, 1, 4]) for _ in range(n)]
                if n == 1:
                    v = [0.0, sing[0]]
                else:
                    v = [0.0, sing[0], sing[1], sing[0] + sing[1] + rng.choice([0, 0, 1, 3, 0.5])]
                if j % 4 == 3 and n == 2:
                    m = np.array([[float(rng.randint(0, 3)), float(rng.randint(0, 5))], [float(rng.randint(0, 3)), 0.0]])
                    traces.append(one_trace(tid, n, GraphCooperativeGame(m), "exact", "int_graph"))
                else:
                    traces.append(one_trace(tid, n, table_of(n, [float(x) for x in v]), "exact", "exact"))
            if n == 2:
                # games at the edge of the library's own tolerance: accepted as superadditive (relative 1e-9) although their surplus is
                # slightly NEGATIVE -- large singletons, a deficit of one grid unit (seed C15-g: a guard that assumes the surplus of an
                # accepted game is never negative).  Kept inside the exact domain: values * 2^11 below 2^30.
                from incomplete_cooperative.game_properties import is_superadditive
                for j in range(3):
                    tid += 1
                    s1, s2 = float(2 ** 18 - rng.randint(1, 3)), float(2 ** 18 - rng.randint(1, 3))
                    g = table_of(n, [0.0, s1, s2, s1 + s2 - 2.0 ** -11])
                    if is_superadditive(g):
                        traces.append(one_trace(tid, n, g, "exact", "tolerance_edge"))
            path = f"{a.out}_norm_n{n}.json"
            D.dump(path, {"traces": traces})
            files.append({"n": n, "path": path, "traces": len(traces), "events": len(traces),
                          "sample": {k: traces[-1][k] for k in ("family", "rep", "v", "out", "cond_e")}})
            continue
        for j in range(a.exact):
            tid += 1
            kind = j % 7
            if kind == 6:                           # mixed-sign singletons that cancel exactly (surplus = v(N), yet not zero-normalised)
                v = D.random_sa_game_cancelling(n, rng)
                if rng.random() < 0.3:              # additive variant
                    v = [sum(v[2 ** i] for i in range(n) if c >> i & 1) for c in range(2 ** n)]
            elif kind == 0:
                v = D.random_sa_game(n, rng)
            elif kind == 1:
                v = [x / 4 for x in D.random_sa_game(n, rng, sing=(-9, 9))]
            elif kind == 2:                         # additive integer game: surplus exactly 0
                w = [rng.randint(-4, 7) for _ in range(n)]
                v = [sum(w[i] for i in range(n) if c >> i & 1) for c in range(2 ** n)]
            elif kind == 3:                         # zero-normalised already
                v = D.random_sa_game(n, rng, sing=(0, 0))
            elif kind == 4:                         # negative game
                v = D.random_sa_game(n, rng, sing=(-9, -1), slack=(0, 2))
            else:                                   # integer graph game
                m = np.zeros((n, n))
                for i in range(n):
                    for k in range(i + 1, n):
                        m[i, k] = rng.randint(0, 3)
                if (j // 7) % 2 == 1:
                    m = m * 2.0 ** -40                 # every other graph game has a very small total weight (still exact)
                traces.append(one_trace(tid, n, GraphCooperativeGame(m), "exact", "int_graph"))
                continue
            if j % 9 == 8:
                v = [x * 2.0 ** -30 for x in v]              # very small magnitude
            traces.append(one_trace(tid, n, table_of(n, [float(x) for x in v]), "exact", "exact"))
        # additive and nearly additive FLOAT games whose singleton values have both signs -- including weights that cancel at the
        # grand coalition, so that |v(N)| is far below the magnitude of the table (seed C15-d); tabulated the way the library's own
        # `additive` generator does it (one in-place float addition per player)
        for j in range(max(6, a.exact // 2)):
            tid += 1
            kind = j % 6
            w = [rng.uniform(-1, 1) for _ in range(n)]
            if kind in (1, 2, 4):
                # decimal weights cancel at the grand coalition only up to rounding: v(N) is a residue such as 5.6e-17
                w = [round(x, rng.choice([1, 2])) for x in w]
                w[-1] = round(-math.fsum(w[:-1]), 2)
            if kind == 2:
                w = [x * 2.0 ** rng.choice([-30, 20]) for x in w]
            if kind == 3:
                w = [abs(x) for x in w]
            arr = np.zeros(2 ** n)
            order = list(range(n))
            rng.shuffle(order)
            for i in order:
                arr[np.arange(2 ** n) & 2 ** i != 0] += w[i]
            fam_name = "float_additive"
            if kind in (4, 5):                              # the same weights with a genuine surplus on top: not additive
                sur = rng.choice([0.5, 3.0, 2.0 ** -10])
                for c in range(2 ** n):
                    k = bin(c).count("1")
                    if k >= 2:
                        arr[c] += sur * (k - 1) / (n - 1)
                fam_name = "float_cancelling_surplus"
            try:
                traces.append(one_trace(tid, n, table_of(n, arr), "quant", fam_name))
            except D.DriverError:
                skipped += 1
        for fam in fams:
            for s in range(a.seeds):
                tid += 1
                try:
                    g = GENERATORS[fam](n, np.random.default_rng(a.seed * 7 + s * 1009 + n))
                except Exception:  # noqa: BLE001  -- a generator that cannot run is C10's business, not C15's
                    genfail += 1
                    continue
                try:
                    traces.append(one_trace(tid, n, g, "quant", fam))
                except D.DriverError:
                    skipped += 1
        path = f"{a.out}_norm_n{n}.json"
        D.dump(path, {"traces": traces})
        files.append({"n": n, "path": path, "traces": len(traces), "events": len(traces),
                      "sample": {k: traces[-1][k] for k in ("family", "rep", "v", "out", "cond_e")} if traces else {}})
    D.finish({"files": files, "events": sum(f["events"] for f in files), "skipped": skipped, "generator_failed": genfail})


if __name__ == "__main__":
    main()
