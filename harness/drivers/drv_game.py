"""Driver for the incomplete game object (C17): random histories of ALL public value operations on several live
objects (copies, negations, sums), logging the full table and the outcome of every getter of every object after every call."""
from __future__ import annotations

import argparse
import json
import math
import random

import numpy as np

import drvlib as D
from incomplete_cooperative.coalitions import Coalition
from incomplete_cooperative.game import IncompleteCooperativeGame

MAXOBJ = 4


def snapshot(g, n, scale):
    try:
        return _snapshot(g, n, scale)
    except D.DriverError:
        # the object holds a value outside the exact domain although every input was inside: reported through the refinement clause
        z = [0] * 2 ** n
        return {"k": [-1] * 2 ** n, "lo": z, "up": z, "gv_ok": z, "gv": z, "gkv_ok": z, "gkv": z, "gkvs_ok": z, "gkvs": z, "gvs_all": 0,
                "full": 0, "sk": z, "slo": z, "sup": z}


def _snapshot(g, n, scale):
    k = [int(b) for b in g.are_values_known()]
    lo = D.exact_arr(g.get_lower_bounds(), scale)
    up = D.exact_arr(g.get_upper_bounds(), scale)
    gv_ok, gv, gkv_ok, gkv, sk, slo, sup = [], [], [], [], [], [], []
    for c in range(2 ** n):
        co = Coalition(c)
        try:
            gv.append(D.exact_int(g.get_value(co), scale))
            gv_ok.append(1)
        except ValueError:
            gv.append(0)
            gv_ok.append(0)
        x = g.get_known_value(co)
        gkv_ok.append(0 if x is None else 1)
        gkv.append(0 if x is None else D.exact_int(x, scale))
        sk.append(int(bool(g.is_value_known(co))))
        slo.append(D.exact_int(g.get_lower_bound(co), scale))
        sup.append(D.exact_int(g.get_upper_bound(co), scale))
        iv = g.get_interval(co)
        if D.exact_int(iv[0], scale) != slo[-1] or D.exact_int(iv[1], scale) != sup[-1]:
            slo[-1] = slo[-1] + 999983  # make the disagreement visible to the scalar/bulk clause
    # the list forms of every bulk getter must agree with the full arrays (random subset, random order, with a repetition)
    import random as _r
    rr = _r.Random(sum(k) * 31 + n)
    sub = [rr.randrange(2 ** n) for _ in range(rr.randint(1, 2 ** n))]
    cl_list = [Coalition(c) for c in sub]

    def cl_form():
        """the coalitions in one of the argument forms the signatures allow (Iterable): list, tuple, iterator, generator, map (seed C17-e)"""
        f = rr.randrange(5)
        return (cl_list if f == 0 else tuple(cl_list) if f == 1 else iter(cl_list) if f == 2 else (c for c in cl_list) if f == 3
                else map(Coalition, sub))
    cl = cl_list
    try:
        ok = (D.exact_arr(g.get_lower_bounds(cl_form()), scale) == [lo[c] for c in sub]
              and D.exact_arr(g.get_upper_bounds(cl_form()), scale) == [up[c] for c in sub]
              and [int(b) for b in g.are_values_known(cl_form())] == [k[c] for c in sub]
              and D.exact_arr(np.asarray(g.get_intervals(cl_form()))[:, 0], scale) == [lo[c] for c in sub]
              and D.exact_arr(np.asarray(g.get_intervals(cl_form()))[:, 1], scale) == [up[c] for c in sub])
        kvl = g.get_known_values(cl_form())
        ok = ok and all((math.isnan(float(x)) and not k[c]) or (k[c] and D.exact_int(x, scale) == lo[c]) for x, c in zip(kvl, sub))
        if all(k[c] for c in sub):
            ok = ok and D.exact_arr(g.get_values(cl_form()), scale) == [lo[c] for c in sub]
        else:
            try:
                g.get_values(cl_form())
                ok = False                      # a value of an unknown coalition was returned
            except ValueError:
                pass
    except D.DriverError:
        ok = False
    if not ok:
        slo[0] = slo[0] + 999983                # reported through the scalar/bulk agreement clause
    # arrays handed out for an explicit list of coalitions belong to the caller: whatever the caller writes into them must not reach the
    # game (seed C17-f: a slice VIEW of the table returned for runs of consecutive ids).  The forms with coalitions=None are not touched:
    # there the library hands out its own columns by design.
    try:
        start = rr.randrange(0, max(1, 2 ** n - 1))
        run = [Coalition(c) for c in range(start, min(2 ** n, start + rr.randint(2, 4)))]
        for getter in (g.get_lower_bounds, g.get_upper_bounds, g.get_known_values, g.are_values_known, g.get_intervals):
            for lst in (run, cl_list):
                arr = getter(list(lst))
                if isinstance(arr, np.ndarray) and arr.size:
                    arr[...] = True if arr.dtype == np.bool_ else 424242.0
        if all(k[c.id] for c in run):
            arr = g.get_values(run)
            arr[...] = 424242.0
        if ([int(b) for b in g.are_values_known()] != k or D.exact_arr(g.get_lower_bounds(), scale) != lo
                or D.exact_arr(g.get_upper_bounds(), scale) != up):
            slo[0] = slo[0] + 999983
    except D.DriverError:
        slo[0] = slo[0] + 999983
    kv = g.get_known_values()
    gkvs_ok = [0 if math.isnan(float(x)) else 1 for x in kv]
    gkvs = [0 if math.isnan(float(x)) else D.exact_int(x, scale) for x in kv]
    try:
        g.get_values()
        gvs_all = 1
    except ValueError:
        gvs_all = 0
    return {"k": k, "lo": lo, "up": up, "gv_ok": gv_ok, "gv": gv, "gkv_ok": gkv_ok, "gkv": gkv, "gkvs_ok": gkvs_ok,
            "gkvs": gkvs, "gvs_all": gvs_all, "full": int(bool(g.full)), "sk": sk, "slo": slo, "sup": sup}


def run_ops(n, scale, ops_source, rng, length):
    """ops_source: None for random, else a list of op dicts to execute (replay)."""
    games = [IncompleteCooperativeGame(n)]
    trace_events = []
    init = [snapshot(games[0], n, scale)]
    NC = 2 ** n

    def val():
        return rng.randint(-6 * scale, 9 * scale) / scale

    for step in range(length if ops_source is None else len(ops_source)):
        if ops_source is None:
            o = rng.randrange(len(games))
            g = games[o]
            names = ["set_value", "reveal", "unset_value", "unreveal", "set_values", "set_known_values", "set_lower_bounds",
                     "set_upper_bounds", "set_lower_bound", "set_upper_bound", "compute_none"]
            if len(games) < MAXOBJ:
                names += ["copy", "neg", "add", "new"]
            nm = rng.choice(names)
            op = {"op": nm, "o": o + 1, "o2": 0, "c": 0, "x": 0, "cs": [], "xs": []}
            if nm in ("set_value", "reveal"):
                op["c"], op["x"] = rng.randrange(NC), val()
            elif nm in ("unset_value", "unreveal"):
                op["c"] = rng.randrange(NC)
            elif nm in ("set_values", "set_known_values", "set_lower_bounds", "set_upper_bounds"):
                if rng.random() < 0.25:
                    cs = list(range(NC))          # the coalitions=None form
                    op["all"] = 1
                else:
                    cs = rng.sample(range(NC), rng.randint(0 if nm != "set_values" else 1, NC))
                op["cs"], op["xs"] = cs, [val() for _ in cs]
                if nm in ("set_values", "set_known_values") and cs and rng.random() < 0.3:
                    # write back what the game itself holds for these coalitions (their lower bounds): a run of consecutive ids half the time
                    if rng.random() < 0.5 and NC >= 3:
                        st = rng.randrange(0, NC - 1)
                        cs = list(range(st, min(NC, st + rng.randint(2, 4))))
                    op["cs"] = cs
                    op["xs"] = [float(g.get_lower_bound(Coalition(c))) for c in cs]
                    op["readback"] = 1
                    op.pop("all", None)
            elif nm in ("set_lower_bound", "set_upper_bound"):
                unknown = [c for c in range(NC) if not g.is_value_known(Coalition(c))]
                if not unknown:
                    op["op"] = nm = "compute_none"
                else:
                    op["c"], op["x"] = rng.choice(unknown), val()
            elif nm == "add":
                op["o2"] = rng.randrange(len(games)) + 1
        else:
            op = dict(ops_source[step])
            op["xs"] = [x / scale for x in op["xs"]]
            op["x"] = op["x"] / scale
            nm = op["op"]
        g = games[op["o"] - 1] if op["o"] >= 1 else None
        outcome = "ok"
        try:
            if nm == "new":
                games.append(IncompleteCooperativeGame(n))
            elif nm == "set_value":
                g.set_value(op["x"], Coalition(op["c"]))
            elif nm == "reveal":
                g.reveal_value(op["x"], Coalition(op["c"]))
            elif nm == "unset_value":
                g.unset_value(Coalition(op["c"]))
            elif nm == "unreveal":
                g.unreveal_value(Coalition(op["c"]))
            elif nm in ("set_values", "set_known_values", "set_lower_bounds", "set_upper_bounds"):
                vals = np.array(op["xs"], dtype=np.float64)
                if rng is not None and op.get("readback"):
                    # the values written are the ones READ from this very game a moment ago (keep-only / snapshot-restore idioms): the
                    # array returned by the getter is handed straight back to the setter
                    vals = g.get_lower_bounds([Coalition(c) for c in op["cs"]])
                if rng is not None and len(op["xs"]) and all(float(x).is_integer() for x in op["xs"]):
                    form = rng.random()
                    if form < 0.2:
                        vals = np.array(op["xs"], dtype=np.int64)        # integer-typed values are values too
                    elif form < 0.3:
                        vals = np.array(op["xs"], dtype=np.float32)
                cs = None if op.get("all") else [Coalition(c) for c in op["cs"]]
                if cs is not None and rng is not None and rng.random() < 0.3:
                    cs = (c for c in cs)             # any Iterable is allowed by the signature: a one-shot generator
                if nm == "set_values":
                    g.set_values(vals, cs)
                elif nm == "set_known_values":
                    g.set_known_values(list(op["xs"]), cs)
                elif nm == "set_lower_bounds":
                    g.set_lower_bounds(vals, cs)
                else:
                    g.set_upper_bounds(vals, cs)
            elif nm == "set_lower_bound":
                g.set_lower_bound(op["x"], Coalition(op["c"]))
            elif nm == "set_upper_bound":
                g.set_upper_bound(op["x"], Coalition(op["c"]))
            elif nm == "compute_none":
                g.compute_bounds()
            elif nm == "copy":
                games.append(g.copy())
            elif nm == "neg":
                games.append(-g)
            elif nm == "add":
                games.append(g + games[op["o2"] - 1])
        except (AssertionError, ValueError, IndexError, TypeError, AttributeError) as ex:
            outcome = type(ex).__name__
        # equality of game objects (every pair of live objects, after the call) and the refusal to compare with a non-game
        eq = []
        for gi in games:
            row = []
            for gj in games:
                try:
                    row.append(int(bool(gi == gj)))
                except Exception:  # noqa: BLE001
                    row.append(2)
            eq.append(row)
        try:
            games[0] == 5
            eq_other = 0
        except AttributeError:
            eq_other = 1
        except Exception:  # noqa: BLE001
            eq_other = 0
        ev = {"op": nm, "o": op["o"], "o2": op["o2"], "c": op["c"], "x": D.exact_int(op["x"], scale), "cs": list(op["cs"]), "eq": eq, "eq_other": eq_other,
              "xs": [D.exact_int(x, scale) for x in op["xs"]], "all": int(op.get("all", 0)), "outcome": outcome,
              "objs": [snapshot(x, n, scale) for x in games]}
        trace_events.append(ev)
    return init, trace_events


def main():
    ap = argparse.ArgumentParser()
    ap.add_argument("--out", required=True)
    ap.add_argument("--seed", type=int, default=0)
    ap.add_argument("--ns", default="1,2,3,4")
    ap.add_argument("--count", type=int, default=30)
    ap.add_argument("--length", type=int, default=20)
    ap.add_argument("--replay", default=None, help="JSON file: {n, scale, ops:[...]} lists to execute instead of random ops")
    a = ap.parse_args()
    files = []
    total = 0
    if a.replay:
        spec = json.load(open(a.replay))
        groups = {}
        for i, b in enumerate(spec["behaviours"]):
            init, evs = run_ops(b["n"], b.get("scale", 1), b["ops"], None, 0)
            groups.setdefault(b["n"], []).append({"tid": b.get("tid", i + 1), "n": b["n"], "scale": b.get("scale", 1), "light": 0, "init": init, "events": evs})
        for n, traces in groups.items():
            path = f"{a.out}_game_n{n}.json"
            D.dump(path, {"traces": traces})
            files.append({"n": n, "path": path, "traces": len(traces), "events": sum(len(t["events"]) for t in traces),
                          "sample": {"ops": [[e["op"], e["o"], e["c"], e["x"]] for e in traces[0]["events"]][:10]}})
            total += files[-1]["events"]
        D.finish({"files": files, "events": total})
        return
    rng = random.Random(a.seed * 104729 + 5)
    tid = 0
    for n in [int(x) for x in a.ns.split(",")]:
        traces = []
        for _ in range(a.count):
            tid += 1
            scale = rng.choice([1, 1, 2, 8])
            init, evs = run_ops(n, scale, None, rng, a.length)
            traces.append({"tid": tid, "n": n, "scale": scale, "light": 0, "init": init, "events": evs})
        path = f"{a.out}_game_n{n}.json"
        D.dump(path, {"traces": traces})
        files.append({"n": n, "path": path, "traces": len(traces), "events": sum(len(t["events"]) for t in traces),
                      "sample": {"tid": traces[0]["tid"], "ops": [[e["op"], e["o"], e["c"], e["x"], e["outcome"]] for e in traces[0]["events"]][:10]}})
        total += files[-1]["events"]
    D.finish({"files": files, "events": total})


if __name__ == "__main__":
    main()
