"""Driver for C19: sequences of saves (save_json, save) read back after every call, and the solve / greedy / best_states commands."""
from __future__ import annotations

import argparse
import datetime
import json
import math
import random
import shutil
import struct
from argparse import Namespace
from pathlib import Path

import numpy as np
from incomplete_cooperative.generators import GENERATORS

import drvlib as D
import incomplete_cooperative.run.best_states as BS
import incomplete_cooperative.run.greedy as GR
import incomplete_cooperative.run.solve as SO
from incomplete_cooperative.run.model import ModelInstance
from incomplete_cooperative.run.save import Output, get_outputs_from_file, save, save_json


class Tokens:
    def __init__(self):
        self.t = {}

    def tok(self, x):
        x = float(x)
        if math.isnan(x):
            return 0
        key = struct.pack(">d", x)
        if key not in self.t:
            self.t[key] = len(self.t) + 1
        return self.t[key]

    def mat(self, a):
        a = np.asarray(a, dtype=np.float64)
        return list(a.shape), [self.tok(x) for x in a.ravel()]


def expected_meta(ns: Namespace) -> dict:
    """independent statement of 'metadata up to JSON stringification': JSON-native values as they are, Path as str, anything else as repr"""
    d = vars(ns).copy()
    func = d.pop("func")
    d["run_type"] = "eval" if "eval" in repr(func) else "learn"

    def conv(v):
        if isinstance(v, Path):
            return str(v)
        if isinstance(v, (str, int, float, bool)) or v is None:
            return v
        if isinstance(v, (list, tuple)):
            return [conv(x) for x in v]
        if isinstance(v, dict):
            return {str(k): conv(x) for k, x in v.items()}
        return repr(v)
    return {k: conv(v) for k, v in d.items()}


def nm(name: str) -> str:
    """injective ASCII form of a run name for the trace (TLC compares names as strings)"""
    return name.encode("unicode_escape").decode("ascii")


def same_json(a, b):
    return json.dumps(a, sort_keys=True) == json.dumps(b, sort_keys=True)


def read_file(path: Path, tk: Tokens, metas: dict):
    """the file as read back by the library's own readers -> list of records sorted by name"""
    if not path.exists():
        return 1, []
    try:
        outs = get_outputs_from_file(path)
        raw = json.loads(path.read_text())
    except Exception:  # noqa: BLE001
        return 0, []
    recs = []
    for name in sorted(outs):
        o = outs[name]
        ds, df = tk.mat(o.data)
        as_, af = tk.mat(o.actions)
        try:                                   # the single-name reader must see what the all-names reader sees, after every save
            one = Output.from_file(path, name)
            agree = np.array_equal(one.data, o.data, equal_nan=True) and np.array_equal(np.asarray(one.actions, dtype=float), np.asarray(o.actions, dtype=float), equal_nan=True)
        except Exception:  # noqa: BLE001
            return 0, []
        exp = metas.get(name)
        got = {k: v for k, v in raw[name]["metadata"].items()}
        recs.append({"name": nm(name), "dshape": ds, "dflat": df, "ashape": as_, "aflat": af,
                     "meta_ok": int(exp is None or same_json(got, exp)) if agree else 0, "f64": int(o.data.dtype == np.float64)})
    return 1, recs


SPECIAL = [float("nan"), -0.0, 0.0, 1e308, -1e308, 5e-324, 2.0 ** 53 + 2, -1.5, 1 / 3, float("inf"), float("-inf")]


FINITE = [-0.0, 0.0, 1e6, -1e6, 5e-324, 2.0 ** 53 + 2, -1.5, 1 / 3]


def random_output(rng, name, finite=False):
    rows, cols = rng.randint(1, 5), rng.randint(1, 4)
    special = FINITE if finite else SPECIAL      # the plot savers of save() cannot draw inf / NaN gap curves: finite gaps there
    data = np.array([[rng.choice(special) if rng.random() < 0.3 else rng.uniform(-50, 50) for _ in range(cols)] for _ in range(rows + 1)])
    if rng.random() < 0.3:
        shape = (rows + 1, cols, rows)
        actions = np.full(shape, np.nan)
        for idx in np.ndindex(shape):
            if rng.random() < 0.5:
                actions[idx] = float(rng.randrange(3, 60))
    else:
        actions = np.array([[float(rng.randrange(3, 60)) if rng.random() < 0.8 else np.nan for _ in range(cols)] for _ in range(rows)])
    if np.all(np.isnan(actions)):          # "a run of at least one step": at least one coalition was revealed
        actions[(0,) * actions.ndim] = 7.0
    ns = Namespace(func=rng.choice([print, random_output]), unique_name=name, model_dir=Path("/some/where") / name, seed=rng.randrange(10 ** 6),
                   when=datetime.date(2024, 1, rng.randint(1, 28)), np_scalar=np.float64(rng.random()), np_int=np.int64(rng.randrange(9)),
                   flag=rng.random() < 0.5, nothing=None, ratio=rng.random(), names=["a", 1, 2.5], solver=rng.choice(["greedy", "random", None]))
    return Output(data, actions, ns)


CONFUSABLE = [["konvexn\u00ed", "konvexni\u0301", "konvexni"],                 # composed / decomposed / bare
              ["Run0", "run0", "RUN0"],
              ["run0 ", " run0", "run 0", "run0\t"],
              ["1", "1.0", "01", "1e0", "+1"],
              ["\uff21lpha", "Alpha", "\u0391lpha"],                          # fullwidth / Latin / Greek capital A
              ["run0.", "run0.png", "run0.json", "run0.tmp"],
              ["null", "true", "NaN", "None", ""],
              ["x" * 120, "x" * 121],
              ["\u212bngstr\u00f6m", "\u00c5ngstr\u00f6m", "A\u030angstro\u0308m"],   # Angstrom sign / composed / decomposed
              ["data", "data.json", "metadata", "actions"]]


def save_trace(tid, rng, root: Path, nsaves):
    shutil.rmtree(root, ignore_errors=True)
    root.mkdir(parents=True)
    tk = Tokens()
    metas = {}
    names = [f"run{j}" for j in range(max(2, nsaves // 2))] + ["x/y", "naïve name", "1", "v1.0", "v1.1", "alpha_0.25", "alpha_0.5", "a.b.c", ".hidden"]
    # groups of names that are DIFFERENT strings although something might take them for the same (seed C19-d: Unicode normalisation):
    # every member of two groups per trace, so that both spellings meet in one file
    for grp in rng.sample(CONFUSABLE, 2):
        names += grp
    events = []
    use_save = rng.random() < 0.4
    path = (root / "m" / "data.json") if use_save else (root / "data.json")
    for _ in range(nsaves):
        name = rng.choice(names)
        if use_save and ("/" in name or name == "" or len(name) > 100):
            name = "plain"
        out = random_output(rng, name, finite=use_save)
        ds, df = tk.mat(out.data)                  # what is handed to the save, recorded BEFORE the call
        as_, af = tk.mat(out.actions)
        exc = ""
        try:
            if use_save:
                save(root / "m", name, out)
            else:
                save_json(path, name, out)
        except Exception as ex:  # noqa: BLE001
            exc = type(ex).__name__
        if name not in metas:
            metas[name] = expected_meta(out.parsed_args)
        readable, recs = read_file(path, tk, metas)
        events.append({"op": "save" if use_save else "save_json", "name": nm(name), "exc": exc, "readable": readable, "produced_same": -1,
                       "entry": {"dshape": ds, "dflat": df, "ashape": as_, "aflat": af}, "file": recs})
    return {"tid": tid, "kind": "saves", "init": [], "events": events}


def command_trace(tid, rng, root: Path, seed, light_gens=None):
    """solve / greedy / best_states run in-process on n=3; what they hand to save() and what evaluate()/the search produced is captured."""
    shutil.rmtree(root, ignore_errors=True)
    root.mkdir(parents=True)
    tk = Tokens()
    metas = {}
    events = []
    path = root / "data.json"
    captured = {}

    def fake_save(model_path, unique_name, output):     # records what the command hands over (before any saver runs), then the real save()
        captured["output"] = output
        captured["snapshot"] = (np.array(output.data, dtype=np.float64, copy=True), np.array(output.actions, dtype=np.float64, copy=True))
        if light_gens is not None:                       # the sweep over the generator registry writes data.json only (no plots)
            save_json(model_path / "data.json", unique_name, output)
            return
        try:
            save(model_path, unique_name, output)
        except FileExistsError:
            pass                                        # a repeated name in the per-run plot directory: data.json is what matters

    real_eval, real_greedy, real_best = SO.evaluate, GR.get_greedy_rewards, BS.get_best_exploitability

    def cap(fn, key):
        def w(*a, **kw):
            r = fn(*a, **kw)
            captured.setdefault(key, []).append(r)
            return r
        return w
    SO.save = GR.save = BS.save = fake_save
    SO.evaluate, GR.get_greedy_rewards, BS.get_best_exploitability = cap(real_eval, "eval"), cap(real_greedy, "greedy"), cap(real_best, "best")
    try:
        for j in range(5 if light_gens is None else len(light_gens)):
            cmd = ["solve", "greedy", "best_states", "solve", "best_states"][j] if light_gens is None else "solve"
            name = f"{cmd}{j}" if (j != 3 or light_gens is not None) else "solve0"          # the fourth one repeats a name
            gen = rng.choice(["factory", "noisy_factory", "graph_random", "xos"])
            if j in (0, 3):
                # the solve command on ANY registered generator (seed C19-f: a shortcut keyed on the generator's name), several repetitions
                gen = rng.choice(sorted(k for k in GENERATORS if k != "convex"))
            if light_gens is not None:
                gen = light_gens[j]
            if j == 4 and light_gens is None:
                gen = rng.choice(["noisy_factory", "xos"])       # every sampled game different: the order of the columns is visible
            cls = "superadditive" if not gen.startswith("xos") else rng.choice(["superadditive", "sam_apx_1"])
            inst = ModelInstance(number_of_players=3, game_class=cls, game_generator=gen, gap_function=rng.choice(["exploitability", "l1_norm", "l2_norm"]),
                                 run_steps_limit=rng.randint(1, 4 if cmd == "best_states" else 3), model_dir=root, unique_name=name, seed=seed + j, parallel_environments=1)
            ns = Namespace(func=print, solver=rng.choice(["greedy", "largest", "random"]), solve_repetitions=rng.randint(1, 4),
                           sampling_repetitions=rng.randint(1, 3), eval_repetitions=rng.randint(1, 2), model_dir=root, unique_name=name, seed=seed + j)
            if j in (0, 3) or light_gens is not None:
                ns.solve_repetitions = rng.randint(2, 4)
                ns.solver = rng.choice(["greedy", "largest", "greedy_worst", "random"]) if light_gens is None else ["greedy", "largest", "greedy_worst"][(j + tid) % 3]
            if j == 4 and light_gens is None:     # several evaluation repetitions of several sampled games each (seed C19-e: columns interleaved)
                ns.sampling_repetitions, ns.eval_repetitions = rng.randint(2, 3), rng.randint(2, 3)
            captured.clear()
            exc = ""
            try:
                {"solve": SO.solve_func, "greedy": GR.greedy_func, "best_states": BS.best_states_func}[cmd](inst, ns)
            except Exception as ex:  # noqa: BLE001
                exc = type(ex).__name__
            out = captured.get("output")
            produced_same = -1
            if out is not None:
                out = Output(captured["snapshot"][0], captured["snapshot"][1], out.parsed_args)
                if cmd == "solve":
                    ex_, act = captured["eval"][-1]
                    produced_same = int(np.array_equal(out.data, ex_, equal_nan=True) and np.array_equal(out.actions, act, equal_nan=True))
                elif cmd == "greedy":
                    ex_, best = captured["greedy"][-1]
                    produced_same = int(np.array_equal(out.data, ex_, equal_nan=True) and list(np.asarray(out.actions).ravel()) == [float(x) for x in best])
                else:
                    stacked = np.hstack([r[0] for r in captured["best"]])
                    produced_same = int(np.array_equal(out.data, stacked, equal_nan=True))
                    acts = np.asarray(out.actions, dtype=np.float64)        # [size, evaluation repetition, position] = coalition id, NaN padded
                    for rep_i, r in enumerate(captured["best"]):
                        for size_i, coal in enumerate(r[1]):
                            row = acts[size_i, rep_i] if acts.ndim == 3 and size_i < acts.shape[0] and rep_i < acts.shape[1] else None
                            if row is None or [float(x) for x in coal] != [float(x) for x in row[:len(coal)]] or not np.all(np.isnan(row[len(coal):])):
                                produced_same = 0
                if name not in metas:
                    metas[name] = expected_meta(out.parsed_args)
                ds, df = tk.mat(out.data)
                as_, af = tk.mat(out.actions)
            else:
                ds, df, as_, af = [0], [], [0], []
            readable, recs = read_file(path, tk, metas)
            events.append({"op": cmd, "name": nm(name), "exc": exc, "readable": readable, "produced_same": produced_same,
                           "entry": {"dshape": ds, "dflat": df, "ashape": as_, "aflat": af}, "file": recs})
    finally:
        SO.evaluate, GR.get_greedy_rewards, BS.get_best_exploitability = real_eval, real_greedy, real_best
    return {"tid": tid, "kind": "commands", "init": [], "events": events}


def main():
    ap = argparse.ArgumentParser()
    ap.add_argument("--out", required=True)
    ap.add_argument("--seed", type=int, default=0)
    ap.add_argument("--count", type=int, default=20)
    ap.add_argument("--nsaves", type=int, default=8)
    ap.add_argument("--commands", type=int, default=3)
    ap.add_argument("--replay", default=None)
    a = ap.parse_args()
    rng = random.Random(a.seed * 2741 + 11)
    root = Path(a.out + "_dir")
    traces = []
    tid = 0
    for _ in range(a.count):
        tid += 1
        traces.append(save_trace(tid, rng, root, a.nsaves))
    for j in range(a.commands):
        tid += 1
        traces.append(command_trace(tid, rng, root, a.seed * 31 + j))
    if a.commands:
        # the solve command once on EVERY registered generator (several repetitions, the solvers in turn), data.json only
        names = sorted(k for k in GENERATORS if k != "convex")
        for lo in range(0, len(names), 10):
            tid += 1
            traces.append(command_trace(tid, rng, root, a.seed * 31 + 100 + lo, light_gens=names[lo:lo + 10]))
    shutil.rmtree(root, ignore_errors=True)
    path = a.out + "_save.json"
    D.dump(path, {"traces": traces})
    D.finish({"files": [{"n": 1, "path": path, "traces": len(traces), "events": sum(len(t["events"]) for t in traces),
                         "sample": {"ops": [[e["op"], e["name"], e["exc"], e["entry"]["dshape"], e["entry"]["ashape"]] for e in traces[0]["events"]]}}],
              "events": sum(len(t["events"]) for t in traces)})


if __name__ == "__main__":
    main()
