"""Driver for the bound computers on the real game object (C01, C02, C03, C04, C07, C08).

Puts several twin IncompleteCooperativeGame objects (one per computer / repetition count) through the same random
history of reveal / un-reveal / bulk reset / compute operations and logs the full projected table of every
object after every public call, in the Trace_Bounds format.  One output file per player count.
"""
from __future__ import annotations

import argparse
import random
from functools import partial
from math import factorial

import numpy as np

import drvlib as D
from incomplete_cooperative.bounds import (BOUNDS, compute_bounds_superadditive_monotone_approx_cached)
from incomplete_cooperative.coalitions import Coalition
from incomplete_cooperative.game import IncompleteCooperativeGame
from incomplete_cooperative.generators import GENERATORS
from incomplete_cooperative.run.model import GAP_FUNCTIONS


def computer_for(comp: str, r: int):
    if comp == "sa":
        return BOUNDS["superadditive"]
    if comp == "sac":
        return BOUNDS["superadditive_cached"]
    if comp == "sam":
        key = f"sam_apx_{r}"
        return BOUNDS[key] if key in BOUNDS else partial(compute_bounds_superadditive_monotone_approx_cached, repetitions=r)
    raise ValueError(comp)


class Ctx:
    def __init__(self, n, mode, scale, grid):
        self.n, self.mode, self.scale, self.grid = n, mode, scale, grid

    def num(self, x):
        return D.exact_int(x, self.scale) if self.mode == "exact" else D.quant_int(x, self.grid)

    def arr(self, a):
        return D.exact_arr(a, self.scale) if self.mode == "exact" else D.quant_arr(a, self.grid)

    def out_arr(self, a):
        return D.out_exact_arr(a, self.scale) if self.mode == "exact" else D.out_quant_arr(a, self.grid)

    def table(self, g):
        k = [int(b) for b in g.are_values_known()]
        try:
            return {"k": k, "lo": self.out_arr(g.get_lower_bounds()), "up": self.out_arr(g.get_upper_bounds()), "bad": 0}
        except D.OutputError:
            z = [0] * len(k)
            return {"k": k, "lo": z, "up": z, "bad": 1}


NOGAP = {"has": 0, "pure": 1, "en": [0, 0], "l1": [0, 0], "linf": [0, 0], "l2": [0, 0]}


def gaps_of(ctx: Ctx, g, maxabs: float) -> dict:
    """Certified integer intervals of the four gap functions of the real code on game object g."""
    n = ctx.n
    if not g.is_value_known(Coalition(2 ** n - 1)):
        return NOGAP
    if ctx.mode == "exact" and maxabs * ctx.scale > 2 ** 13:
        return NOGAP          # games with a huge offset: the gap numerators (squares, n! multiples) would not fit 32 bits -- gaps not logged
    try:
        tight = ctx.mode == "exact"
        den1 = ctx.scale if tight else ctx.grid
        en = float(GAP_FUNCTIONS["exploitability"](g))
        l1 = float(GAP_FUNCTIONS["l1_norm"](g))
        l2 = float(GAP_FUNCTIONS["l2_norm"](g))
        li = float(GAP_FUNCTIONS["linf_norm"](g))
        M = max(maxabs, 1e-9)
        if tight:
            out = {"has": 1, "pure": 1,
                   "en": D.interval(en, factorial(n) * ctx.scale, rel_ulps=8 * (n + 2), mag=(2 * n + 1) * M, tight=True),
                   "l1": D.interval(l1, den1, rel_ulps=4, mag=2 ** n * 2 * M, tight=True),
                   "linf": D.interval(li, den1, rel_ulps=4, mag=2 * M, tight=True),
                   "l2": D.interval(l2 * l2, den1 * den1, rel_ulps=16, mag=2 ** n * 4 * M * M, tight=True)}
        else:
            out = {"has": 1, "pure": 1,
                   "en": D.interval(en, den1, rel_ulps=64 * (n + 2), mag=(2 * n + 1) * M * 2 ** n),
                   "l1": D.interval(l1, den1, rel_ulps=64 * 2 ** n, mag=2 ** n * 2 * M),
                   "linf": D.interval(li, den1, rel_ulps=16, mag=2 * M),
                   "l2": D.interval(l2, den1, rel_ulps=64 * 2 ** n, mag=2 ** n * 2 * M)}
        return out
    except D.DriverError:
        return NOGAP


def run_trace(tid, n, cls, mode, hidden_f, objs, rng, length, with_gaps, ops_weights, reveal_only=False, script=None, reuse=None,
              min_scale=1, keep_games=False):
    """hidden_f: list of floats (true game).  Returns the trace dict.
    reuse: game objects left behind by an earlier trace (another hidden game): this trace starts from whatever they hold and its first
    operation is a bulk reset to the new game's values (an object re-used for a second game, as the environment does at every reset)."""
    maxabs = max(abs(x) for x in hidden_f) if hidden_f else 1.0
    if mode == "exact":
        scale = min_scale
        while any(float(x) * scale != round(float(x) * scale) for x in hidden_f):
            scale *= 2
            if scale > 2 ** 44:
                raise D.DriverError("hidden game is not dyadic")
        grid = None
        tol, tol2 = 0, 0
    else:
        scale = None
        grid = 2.0 ** 16 / D.pow2_at_least(max(maxabs, 1e-6))
        tol, tol2 = 1, n + 2
    ctx = Ctx(n, mode, scale, grid)
    games = reuse if reuse is not None else [IncompleteCooperativeGame(n, computer_for(o["comp"], o["r"])) for o in objs]
    minimal = D.minimal(n)
    expl = D.explorable(n)

    excs = [""] * len(games)

    def apply_all(fn):
        # an exception raised by the code under test is data for the specification, not a harness crash
        for j, g in enumerate(games):
            try:
                fn(g)
            except Exception as ex:  # noqa: BLE001
                excs[j] = type(ex).__name__

    mc = [Coalition(c) for c in minimal]
    if reuse is None:
        apply_all(lambda g: g.set_known_values([hidden_f[c] for c in minimal], mc))

    def tabs(extra=None):
        out = []
        for j, g in enumerate(games):
            t = ctx.table(g)
            t.update({"idem": -1, "fresh": -1, "bits1": -1, "g": NOGAP, "exc": excs[j] or ("UnloggableOutput" if t.pop("bad") else "")})
            t.pop("bad", None)
            if extra:
                t.update(extra[j])
            excs[j] = ""
            out.append(t)
        return out

    trace = {"tid": tid, "n": n, "cls": cls, "mode": mode, "tol": tol, "tol2": tol2, "scale": scale or 0,
             "hasHidden": 1, "hidden": ctx.arr(hidden_f), "objs": objs, "init": tabs(), "events": []}
    prev_op = "init"
    known = set(minimal)
    since_compute = 0
    reload_plan = []
    if reuse is not None:
        known = {c for c in range(2 ** n) if games[0].is_value_known(Coalition(c))}
        # the second game is loaded either by one bulk reset or value by value over the SAME knowledge set (seed C04-f: overwriting the
        # value of an already known coalition); no recomputation while the table is half one game and half the other
        reload_plan = ["reset"] if rng.random() < 0.5 else ["reload"] * len([c for c in known if c != 0])
        reload_list = sorted(c for c in known if c != 0)
        rng.shuffle(reload_list)
    for step in range((length + len(reload_plan)) if script is None else len(script)):
        unknown = [c for c in expl if c not in known]
        revealed = [c for c in expl if c in known]
        choices = []
        if unknown:
            choices += ["reveal"] * ops_weights[0]
        if revealed and not reveal_only:
            choices += ["unreveal"] * ops_weights[1]
        if not reveal_only:
            choices += ["reset"] * ops_weights[2]
            if expl:
                choices += ["set", "set_many"]
            if revealed:
                choices += ["unset"]
        choices += ["compute"] * ops_weights[3]
        op = rng.choice(choices) if script is None else "compute"
        if since_compute >= 3 or step == length + len(reload_plan) - 1 or (reveal_only and prev_op != "compute"):
            op = "compute"
        if reveal_only and prev_op == "compute" and unknown:
            op = "reveal"
        if script is None and unknown and step > 0 and rng.random() < 0.1:
            op = "elsewhere"
        if reuse is not None and step < len(reload_plan):
            op = reload_plan[step]
        if script is not None:
            op = script[step]["op"]
        ev = {"op": op, "c": 0, "val": 0, "cs": [], "vals": [], "mix": 0}
        extra = None
        if op == "reveal":
            c = rng.choice(unknown) if script is None else script[step]["c"]
            apply_all(lambda g: g.reveal_value(hidden_f[c], Coalition(c)))
            known.add(c)
            ev["c"], ev["val"] = c, ctx.num(hidden_f[c])
            since_compute += 1
        elif op == "elsewhere":
            # something happens to ANOTHER object derived from this one -- a copy (a look-ahead, a snapshot) gets a coalition revealed and
            # its bounds computed, then is dropped: the object under test must not notice (seeds C07-f, C17-d: state shared with copies)
            c = rng.choice(unknown) if script is None else script[step]["c"]

            def poke(g):
                h = g.copy()
                h.reveal_value(hidden_f[c], Coalition(c))
                h.compute_bounds()
                if script is None and rng.random() < 0.5:
                    h.unreveal_value(Coalition(c))
            apply_all(poke)
            # ... and a caller of the public id helpers does what it likes with the arrays it was handed (seed C02-f)
            from incomplete_cooperative import coalition_ids as CI
            for arr in (CI.get_all_coalitions(n), CI.sub_coalitions(2 ** n - 1, n), CI.super_coalitions(0, n)):
                if isinstance(arr, np.ndarray) and arr.size > 2:
                    arr[1:-1] = arr[1:-1][::-1].copy()
            ev["c"] = c
        elif op == "unreveal":
            c = rng.choice(revealed) if script is None else script[step]["c"]
            apply_all(lambda g: g.unreveal_value(Coalition(c)))
            known.discard(c)
            ev["c"] = c
            since_compute += 1
        elif op == "reload":
            c = reload_list[step]
            apply_all(lambda g: g.set_value(hidden_f[c], Coalition(c)))
            ev["op"] = "set"
            ev["c"], ev["val"] = c, ctx.num(hidden_f[c])
            ev["mix"] = int(step < len(reload_plan) - 1)     # the table still holds values of the previous game
            since_compute = 0
        elif op == "set":
            c = rng.choice(expl) if script is None else script[step]["c"]
            if cls == "ANY" and script is None and mode == "exact" and scale <= 1024 and rng.random() < 0.5:
                # games of any class (C08): the value of a coalition -- known already or not -- is OVERWRITTEN with another one, as when a
                # second game is loaded into the same object (seed C04-f: a cache of known values dropped only when knowledge GROWS)
                hidden_f[c] = float(rng.randint(-6, 9))
            apply_all(lambda g: g.set_value(hidden_f[c], Coalition(c)))
            known.add(c)
            ev["c"], ev["val"] = c, ctx.num(hidden_f[c])
            since_compute += 1
        elif op == "unset":
            c = rng.choice(revealed) if script is None else script[step]["c"]
            apply_all(lambda g: g.unset_value(Coalition(c)))
            known.discard(c)
            ev["c"] = c
            since_compute += 1
        elif op == "set_many":
            cs = rng.sample(expl, rng.randint(1, max(1, min(3, len(expl))))) if script is None else list(script[step]["cs"])
            if cs:
                fc2 = rng.randrange(3) if script is None else 0
                apply_all(lambda g: g.set_values(np.array([hidden_f[c] for c in cs]),
                                                 [Coalition(c) for c in cs] if fc2 == 0 else (Coalition(c) for c in cs) if fc2 == 1 else map(Coalition, cs)))
            known.update(cs)
            ev["cs"], ev["vals"] = cs, [ctx.num(hidden_f[c]) for c in cs]
            since_compute += 1
        elif op == "reset":
            if script is None:
                style = rng.random()
                if style < 0.25 and n >= 3:
                    # late game: everything is known but a few SMALL coalitions -- ids that exist for every player count, so that in an
                    # interleaved run games of different sizes have the same set of unknown ids (seed C03-e: a memo keyed without n)
                    hide = set(rng.sample([3, 5, 6], rng.randint(1, 3)))
                    ks = [c for c in expl if c not in hide]
                elif style < 0.4:
                    ks = [c for c in expl if rng.random() < 0.9]
                else:
                    ks = [c for c in expl if rng.random() < 0.4]
                cs = minimal + ks
                rng.shuffle(cs)
            else:
                cs = list(script[step]["cs"])
            if script is None:
                fv, fc = rng.randrange(3), rng.randrange(4)       # every Iterable form the signature allows, values and coalitions alike
            else:
                fv, fc = 0, 0
            apply_all(lambda g: g.set_known_values(
                [hidden_f[c] for c in cs] if fv == 0 else (hidden_f[c] for c in cs) if fv == 1 else np.array([hidden_f[c] for c in cs]),
                [Coalition(c) for c in cs] if fc == 0 else (Coalition(c) for c in cs) if fc == 1 else tuple(Coalition(c) for c in cs) if fc == 2
                else map(Coalition, cs)))
            known = set(cs)
            ev["cs"], ev["vals"] = cs, [ctx.num(hidden_f[c]) for c in cs]
            since_compute += 1
        else:
            before = [D.raw_table(g) for g in games]
            apply_all(lambda g: g.compute_bounds())
            extra = []
            raw1 = None
            for j, g in enumerate(games):
                raw = D.raw_table(g)
                x = {"idem": (1 if raw == before[j] else 0) if prev_op == "compute" else -1}
                fresh = IncompleteCooperativeGame(n, computer_for(objs[j]["comp"], objs[j]["r"]))
                kc = sorted(known)
                fresh.set_known_values([hidden_f[c] for c in kc], [Coalition(c) for c in kc])
                try:
                    fresh.compute_bounds()
                    x["fresh"] = 1 if D.raw_table(fresh) == raw else 0
                except Exception:  # noqa: BLE001
                    x["fresh"] = 0 if not excs[j] else -1
                if j == 0:
                    raw1 = raw
                x["bits1"] = 1 if raw == raw1 else 0
                x["g"] = gaps_of(ctx, g, maxabs) if with_gaps else NOGAP
                if with_gaps and D.raw_table(g) != raw:
                    x["g"] = dict(x["g"], pure=0)            # a gap function changed the game it was asked to measure
                extra.append(x)
            since_compute = 0
        ev["tabs"] = tabs(extra)
        trace["events"].append(ev)
        prev_op = op
        yield None
    if keep_games:
        trace["_games"] = games
    yield trace


def chain_two(tid, n, cls, mode, v, v2, objs, rng, length, with_gaps, w, reveal_only):
    """two traces on the same game objects: the first one is yielded with the key _more (the consumer keeps the generator)"""
    first = None
    for out in run_trace(tid, n, cls, mode, v, objs, rng, length, with_gaps, w, reveal_only, keep_games=True):
        if out is None:
            yield None
        else:
            first = out
    games = first.pop("_games")
    first["_more"] = 1
    yield first
    yield from run_trace(tid + 500000, n, cls, mode, v2, objs, rng, max(4, length // 2), with_gaps, w, False, reuse=games,
                         min_scale=max(1, first["scale"]))


FLOAT_SA = ["noisy_factory", "noisy_factory_square", "graph_random", "graph_cycle", "graph_geometric", "noisy_factory_fixed"]
FLOAT_SAM = ["xos", "xos2", "xos12", "xs", "xs3", "oxs", "xos_norm_additive"]
INT_SAM = ["k_budget_generator", "covg_fn_generator"]


def main():
    ap = argparse.ArgumentParser()
    ap.add_argument("--out", required=True)
    ap.add_argument("--seed", type=int, default=0)
    ap.add_argument("--family", default="replay", help="sa | sam | any | float_sa | float_sam | paths_sa | paths_sam")
    ap.add_argument("--ns", default="3")
    ap.add_argument("--count", type=int, default=20, help="traces per n")
    ap.add_argument("--length", type=int, default=14)
    ap.add_argument("--gaps", type=int, default=0)
    ap.add_argument("--reps", default="0,1,2", help="SAM repetition counts")
    ap.add_argument("--interleave", type=int, default=0, help="advance all traces (all n) in one interpreter in random interleaving")
    ap.add_argument("--replay", default=None, help="JSON {behaviours:[{n, cls, hidden, objs, script:[{op,c,cs}]}]} to execute instead of random histories")
    a = ap.parse_args()
    if a.replay:
        import json
        spec = json.load(open(a.replay))
        groups = {}
        for i, b in enumerate(spec["behaviours"]):
            gen = run_trace(b.get("tid", i + 1), b["n"], b["cls"], "exact", [float(x) for x in b["hidden"]], b["objs"], None, 0,
                            bool(a.gaps), (1, 1, 1, 1), False, script=b["script"])
            tr = [x for x in gen if x is not None][0]
            groups.setdefault(b["n"], []).append(tr)
        files = []
        for n, traces in sorted(groups.items()):
            path = f"{a.out}_replay_n{n}.json"
            D.dump(path, {"traces": traces})
            files.append({"n": n, "path": path, "traces": len(traces), "events": sum(len(t["events"]) for t in traces),
                          "sample": {"tid": traces[0]["tid"], "cls": traces[0]["cls"], "hidden": traces[0]["hidden"],
                                     "ops": [[e["op"], e["c"]] for e in traces[0]["events"]][:12]}})
        D.finish({"files": files, "events": sum(f["events"] for f in files)})
        return
    rng = random.Random(a.seed * 7919 + hash(a.family) % 1000)
    reps = [int(x) for x in a.reps.split(",")]
    files = []
    pending = []
    total_events = 0
    tid = 0
    for n in [int(x) for x in a.ns.split(",")]:
        traces = []
        for i in range(a.count):
            tid += 1
            nprng = np.random.default_rng(a.seed * 1000003 + tid)
            fam = a.family
            reveal_only = fam.startswith("paths")
            # the kinds of hidden games are stratified over the traces of a player count, so that even two or three traces (large n)
            # include the negative / mixed-sign games
            strat = ((i * 5 + 2) % 8 + rng.random()) / 8
            if fam in ("sa", "paths_sa"):
                kind = strat
                v = D.random_sa_game(n, rng)
                if kind < 0.25:
                    s = rng.choice([2, 4, 8])
                    v = [x / s for x in v]
                elif kind < 0.4:
                    v = D.random_sa_game(n, rng, sing=(-9, -1), slack=(0, 2))
                elif kind < 0.5:
                    v = D.random_sa_game(n, rng, sing=(0, 0), slack=(0, 1), p_zero_slack=0.6)
                if n <= 4 and rng.random() < 0.1:
                    # a large common offset per player (additive shift keeps superadditivity): huge values, small spread
                    big = float(2 ** 20)
                    v = [x + big * bin(c).count("1") for c, x in enumerate(v)]
                cls, mode = "SA", "exact"
                objs = [{"comp": "sa", "r": 0}, {"comp": "sac", "r": 0}]
            elif fam in ("sam", "paths_sam"):
                kind = rng.random()
                if kind < 0.4:
                    # integer XOS (maximum of a few additive integer valuations), negated: superadditive, monotone non-increasing, not convex
                    adds = [[rng.randint(0, 6) for _ in range(n)] for _ in range(rng.randint(2, 4))]
                    v = [-float(max(sum(a[i] for i in range(n) if c >> i & 1) for a in adds)) for c in range(2 ** n)]
                    v[0] = 0.0
                elif kind < 0.6:
                    g = GENERATORS[rng.choice(INT_SAM)](n, nprng)
                    v = [float(x) for x in g.get_values()]
                else:
                    v = D.random_sam_game(n, rng)
                    if rng.random() < 0.2:
                        v = [x / 4 for x in v]
                if n <= 4 and rng.random() < 0.15:
                    # a large fixed cost on top of the game: values are huge compared with their spread (still SAM, still exact)
                    big = float(2 ** 20)
                    v = [0.0] + [x - big for x in v[1:]]
                cls, mode = "SAM", "exact"
                objs = [{"comp": "sac", "r": 0}] + [{"comp": "sam", "r": r} for r in reps]
            elif fam == "sam_sensitive":
                # knowledge sets on which the SECOND sweep of the SAM approximation improves on the first (rare: a few per cent of random
                # knowledge sets at n = 7) are searched for with the real code (r = 0 against r = 1), so that the clauses "raising the
                # repetition count never loosens" and "r = 100 / 1000 are at least as tight as r = 1" are evaluated where they can fail
                # (seed C04-e: an early exit that made the registered sam_apx_100 / 1000 return the r = 0 bounds)
                found = None
                for _attempt in range(300):
                    adds = [[rng.randint(0, 6) for _ in range(n)] for _ in range(rng.randint(2, 4))]
                    v = [-float(max(sum(a_[i] for i in range(n) if c >> i & 1) for a_ in adds)) for c in range(2 ** n)]
                    v[0] = 0.0
                    dens = rng.uniform(0.05, 0.35)
                    ks = D.minimal(n) + [c for c in D.explorable(n) if rng.random() < dens]
                    tabs_ = []
                    for r_ in (0, 1):
                        g_ = IncompleteCooperativeGame(n, computer_for("sam", r_))
                        g_.set_known_values([v[c] for c in ks], [Coalition(c) for c in ks])
                        g_.compute_bounds()
                        tabs_.append(D.raw_table(g_))
                    if tabs_[0] != tabs_[1]:
                        found = ks
                        break
                if found is None:
                    continue
                cls, mode = "SAM", "exact"
                objs = [{"comp": "sac", "r": 0}] + [{"comp": "sam", "r": r} for r in reps]
                unknown_ = [c for c in D.explorable(n) if c not in found]
                script = [{"op": "reset", "c": 0, "cs": list(found)}, {"op": "compute", "c": 0, "cs": []}]
                if unknown_:
                    c_ = rng.choice(unknown_)
                    script += [{"op": "reveal", "c": c_, "cs": []}, {"op": "compute", "c": 0, "cs": []}, {"op": "unreveal", "c": c_, "cs": []},
                               {"op": "compute", "c": 0, "cs": []}]
                gen = run_trace(tid, n, cls, mode, v, objs, rng, 0, bool(a.gaps), (1, 1, 1, 1), False, script=script)
                for out in gen:
                    if out is not None:
                        traces.append(out)
                total_events += len(traces[-1]["events"])
                continue
            elif fam == "cached":
                kind = ((i * 2 + 4) % 5 + rng.random()) / 5
                if kind < 0.4:
                    v, cls = D.random_any_game(n, rng), "ANY"
                elif kind < 0.8:
                    v, cls = D.random_sa_game(n, rng), "SA"
                else:
                    v, cls = [x / 8 for x in D.random_sa_game(n, rng, sing=(-9, 9))], "SA"
                mode = "exact"
                objs = [{"comp": "sa", "r": 0}, {"comp": "sac", "r": 0}] if rng.random() < 0.5 else [{"comp": "sac", "r": 0}, {"comp": "sa", "r": 0}]
            elif fam == "any":
                v = D.random_any_game(n, rng)
                cls, mode = "ANY", "exact"
                objs = [{"comp": "sa", "r": 0}, {"comp": "sac", "r": 0}, {"comp": "sam", "r": rng.choice([0, 1, 2])}]
            elif fam == "float_sa":
                g = GENERATORS[rng.choice(FLOAT_SA)](n, nprng)
                v = [float(x) for x in g.get_values()]
                cls, mode = "SA", "quant"
                objs = [{"comp": "sa", "r": 0}, {"comp": "sac", "r": 0}]
            elif fam == "float_sam":
                g = GENERATORS[rng.choice(FLOAT_SAM)](n, nprng)
                v = [float(x) for x in g.get_values()]
                cls, mode = "SAM", "quant"
                objs = [{"comp": "sac", "r": 0}] + [{"comp": "sam", "r": r} for r in reps]
            else:
                raise SystemExit("unknown family")
            if mode == "exact" and rng.random() < 0.12:
                v = [x * 2.0 ** -30 for x in v]            # the same game at a very small magnitude (still exactly representable)
            length = a.length if not reveal_only else min(2 * len(D.explorable(n)) + 1, 2 * a.length + 1)
            w = (4, 2, 1, 3)
            gen = run_trace(tid, n, cls, mode, v, objs, rng, length, bool(a.gaps), w, reveal_only)
            if mode == "exact" and fam in ("sa", "cached", "sam", "any") and i % 3 == 1 and max(abs(x) for x in v) < 2 ** 12 \
                    and all(float(x) * 8 == round(float(x) * 8) for x in v) and max(abs(x) for x in v) >= 1:
                # the same OBJECTS are then used for a second hidden game of the same class, of another scale and sign (seed C01-f: what an
                # earlier game left in the table must not leak into the next one, whatever is done before the first recomputation)
                if cls == "SA":
                    v2 = [float(x) for x in D.random_sa_game(n, rng, sing=rng.choice([(-9, -1), (3, 9), (0, 0)]), slack=(0, 6))]
                elif cls == "SAM":
                    v2 = [float(x) for x in D.random_sam_game(n, rng)]
                else:
                    v2 = [float(x) for x in D.random_any_game(n, rng)]
                if rng.random() < 0.5:
                    v2 = [x * 4 for x in v2]
                gen = chain_two(tid, n, cls, mode, v, v2, objs, rng, length, bool(a.gaps), w, reveal_only)
            if a.interleave:
                pending.append((n, gen))
                continue
            for out in gen:
                if out is not None:
                    out.pop("_more", None)
                    traces.append(out)
                    total_events += len(out["events"])
        if a.interleave or not traces:
            continue
        path = f"{a.out}_{a.family}_n{n}.json"
        D.dump(path, {"traces": traces})
        files.append({"n": n, "path": path, "traces": len(traces), "events": sum(len(t["events"]) for t in traces),
                      "sample": {"tid": traces[0]["tid"], "cls": traces[0]["cls"], "hidden": traces[0]["hidden"],
                                 "ops": [[e["op"], e["c"]] for e in traces[0]["events"]][:12]}})
    if a.interleave:
        # all traces of all player counts advance in one interpreter, one public call at a time, in random order
        done: dict[int, list] = {}
        sched = random.Random(a.seed + 17)
        while pending:
            k = sched.randrange(len(pending))
            n, gen = pending[k]
            out = next(gen)
            if out is not None:
                more = out.pop("_more", 0)
                done.setdefault(n, []).append(out)
                if not more:
                    pending.pop(k)
        for n in sorted(done):
            traces = done[n]
            total_events += sum(len(t["events"]) for t in traces)
            path = f"{a.out}_{a.family}_n{n}.json"
            D.dump(path, {"traces": traces})
            files.append({"n": n, "path": path, "traces": len(traces), "events": sum(len(t["events"]) for t in traces),
                          "sample": {"tid": traces[0]["tid"], "cls": traces[0]["cls"], "hidden": traces[0]["hidden"],
                                     "ops": [[e["op"], e["c"]] for e in traces[0]["events"]][:12]}})
    D.finish({"files": files, "events": total_events})


if __name__ == "__main__":
    main()
