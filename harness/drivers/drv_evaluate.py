"""Driver for C12: real evaluate() through ModelInstance for solvers x generators x seeds x repetition counts x worker-process counts.
Environments are tagged with their repetition index by the env_generator wrapper; a picklable after_reset callback records, inside the
worker, the hidden game each repetition is actually evaluated on."""
from __future__ import annotations

import argparse
import json
import os
import random
from math import factorial
from pathlib import Path

import numpy as np

import drvlib as D
from incomplete_cooperative.__main__ import get_argument_parser
from incomplete_cooperative.__main__ import main as cli_main
from incomplete_cooperative.evaluation import eval_one, evaluate
from incomplete_cooperative.run.save import Output
from incomplete_cooperative.run.model import ModelInstance
from incomplete_cooperative.solvers import SOLVERS

COMP = {"superadditive": ("sa", 0), "superadditive_cached": ("sac", 0), "sam_apx_1": ("sam", 1), "sam_apx_10": ("sam", 10)}
CONTINUOUS = {"noisy_factory", "noisy_factory_square", "noisy_factory_exp", "xos", "xos2", "xos12", "xs", "xs2", "xs3", "oxs", "graph"}


class Recorder:
    """picklable after_reset: runs in the worker, appends one JSON line per repetition"""

    def __init__(self, path, solver_after_reset):
        self.path = path
        self.solver_after_reset = solver_after_reset

    def __call__(self, env):
        self.solver_after_reset(env)
        base = env.icg_gym if hasattr(env, "icg_gym") else env
        rec = {"tag": getattr(base, "_verif_tag", -1), "pid": os.getpid(), "hid": [float(x).hex() for x in base.full_game.get_values()]}
        fd = os.open(self.path, os.O_WRONLY | os.O_APPEND | os.O_CREAT)
        os.write(fd, (json.dumps(rec) + "\n").encode())
        os.close(fd)


class TaggedEnvs:
    def __init__(self, instance):
        self.instance = instance
        self.n = 0

    def __call__(self):
        env = self.instance.get_env()
        env._verif_tag = self.n
        self.n += 1
        return env


def gap_iv(g, n, gap, mode, scale, grid, M):
    g = float(g)
    if mode == "exact":
        if gap == "exploitability":
            return D.interval(g, factorial(n) * scale, rel_ulps=8 * (n + 2), mag=(2 * n + 1) * M, tight=True)
        if gap == "l2_norm":
            return D.interval(g * g, scale * scale, rel_ulps=16, mag=2 ** n * 4 * M * M, tight=True)
        return D.interval(g, scale, rel_ulps=4, mag=2 ** n * 2 * M, tight=True)
    try:
        q = D.quant_int(g, grid)
    except D.DriverError:
        q = 10 ** 7            # an output far off the grid: nothing plausible equals it
    return [max(-10 ** 7, min(10 ** 7, q))] * 2


def main():
    ap = argparse.ArgumentParser()
    ap.add_argument("--out", required=True)
    ap.add_argument("--seed", type=int, default=0)
    ap.add_argument("--ns", default="3,4")
    ap.add_argument("--configs", type=int, default=6)
    ap.add_argument("--procs", default="1,2,3,4")
    ap.add_argument("--reps", default="1,3,8")
    a = ap.parse_args()
    rng = random.Random(a.seed * 3571 + 7)
    procs = [int(x) for x in a.procs.split(",")]
    reps_choices = [int(x) for x in a.reps.split(",")]
    logdir = Path(a.out + "_logs")
    logdir.mkdir(parents=True, exist_ok=True)
    files = []
    tid = 0
    for n in [int(x) for x in a.ns.split(",")]:
        traces = []
        for ci in range(a.configs):
            solver_name = ["greedy", "random", "largest", "greedy_worst"][ci % 4]
            gen = ["factory", "noisy_factory", "xos", "xs2", "noisy_factory_square", "oxs", "factory_square", "xs3"][ci % 8]
            sam_family = gen.startswith(("xos", "oxs", "xs"))
            cls = rng.choice(["superadditive", "superadditive_cached"] + (["sam_apx_1"] if sam_family else []))
            gap = rng.choice(["exploitability", "l1_norm", "linf_norm", "l2_norm"])
            steps = rng.randint(1, 2 ** n - n - 2)
            repetitions = reps_choices[ci % len(reps_choices)]
            seed = a.seed * 1000 + ci * 17 + n
            if ci % 8 == 5:
                seed = 0 if n % 2 else 2 ** 32      # boundary seeds are seeds like any other (seed C12-f: `seed or <timestamp>`)
            first = None
            # p = 0: eval_one called directly, repetition by repetition; p < 0: the `solve` COMMAND (argument parser -> ModelInstance ->
            # solve_func -> save -> data.json read back) with -p worker processes, compared with the direct evaluate() of the same seed
            cli = [] if ci % 2 == 0 else ([-1] if solver_name == "random" else [-1, -2])
            first_hid = None
            for p in procs + ([0] if ci % 2 == 0 else []) + cli:
                tid += 1
                comp, r = COMP[cls]
                mode = "exact" if gen in ("factory", "factory_square") else "quant"
                t = {"tid": tid, "n": n, "mode": mode, "comp": comp, "r": r, "gap": gap, "steps": steps, "repetitions": repetitions, "p": p,
                     "solver": solver_name, "generator": gen, "seed": seed, "continuous": int(gen in CONTINUOUS), "exc": "", "reps": [], "same_p1": -1, "games_same_p1": -1,
                     "via": "cli" if p < 0 else "api"}
                log = logdir / f"t{tid}.jsonl"
                try:
                    inst = ModelInstance(number_of_players=n, game_class=cls, game_generator=gen, gap_function=gap, run_steps_limit=steps,
                                         seed=seed, parallel_environments=p)
                    solver = SOLVERS[solver_name](inst)
                    if p < 0:
                        mdir = logdir / f"cli{tid}"
                        cli_main(get_argument_parser(), ["prog", "--number-of-players", str(n), "--game-class", cls, "--game-generator", gen,
                                                         "--gap-function", gap, "--run-steps-limit", str(steps), "--seed", str(seed),
                                                         "--parallel-environments", str(-p), "--model-dir", str(mdir), "--unique-name", f"run{tid}",
                                                         "solve", "--solver", solver_name, "--solve-repetitions", str(repetitions)])
                        out = Output.from_file(mdir / "data.json", f"run{tid}")
                        expl, acts = np.array(out.data, dtype=np.float64), np.array(out.actions)
                        if expl.shape != (steps + 1, repetitions) or acts.shape != (steps, repetitions):
                            raise ValueError("shape of the saved matrices")
                    elif p == 0:
                        gen_envs = TaggedEnvs(inst)
                        rec = Recorder(str(log), solver.after_reset)
                        cols = [eval_one(solver.next_step, gen_envs(), steps, inst.gap_function_callable, rec) for _ in range(repetitions)]
                        expl = np.vstack([c[0] for c in cols]).T
                        acts = np.vstack([c[1] for c in cols]).T
                    else:
                        expl, acts = evaluate(solver.next_step, TaggedEnvs(inst), repetitions, steps, inst.gap_function_callable, p,
                                              Recorder(str(log), solver.after_reset))
                    recs = {}
                    if log.exists():
                        for line in log.read_text().splitlines():
                            rec = json.loads(line)
                            recs.setdefault(rec["tag"], []).append(rec)
                    toks = {}
                    sig = []
                    for j in range(repetitions):
                        col_g = [float(x) for x in expl[:, j]]
                        col_a = [int(x) for x in acts[:, j]]
                        taken = 0
                        while taken < steps and col_a[taken] != 0:
                            taken += 1
                        rr = recs.get(j, [])
                        if p < 0 and first_hid is not None and j < len(first_hid):      # the command offers no hook: the games of the direct run
                            rr = [{"hid": list(first_hid[j])}]
                        rep = {"has_hid": int(len(rr) == 1), "hid": [], "hid_tok": -1 - j, "taken": taken, "actions": col_a, "gaps": []}
                        if len(rr) == 1:
                            hid = [float.fromhex(x) for x in rr[0]["hid"]]
                            M = max(1e-9, max(abs(x) for x in hid))
                            if mode == "exact":
                                scale, grid = 1, None
                                rep["hid"] = D.exact_arr(hid, 1)
                            else:
                                scale, grid = None, 2.0 ** 16 / D.pow2_at_least(4 * M)
                                rep["hid"] = D.quant_arr(hid, grid)
                            rep["hid_tok"] = toks.setdefault(tuple(rr[0]["hid"]), len(toks))
                            rep["gaps"] = [gap_iv(g, n, gap, mode, scale, grid, M) for g in col_g]
                            sig.append((tuple(rr[0]["hid"]), tuple(x.hex() for x in col_g), tuple(col_a)))
                        t["reps"].append(rep)
                    if p < 0:
                        t["p"] = -p
                        t["games_same_p1"] = -1
                        t["same_p1"] = int(first is not None and [x[1:] for x in sig] == [x[1:] for x in first])
                    elif p == 0:
                        t["same_p1"], t["games_same_p1"] = -1, -1       # a different call path: not compared with evaluate()
                    else:
                        if first is None:
                            first = sig
                            first_hid = [x[0] for x in sig]
                        t["same_p1"] = int(sig == first)
                        t["games_same_p1"] = int([x[0] for x in sig] == [x[0] for x in first])
                except D.DriverError:
                    raise
                except Exception as ex:  # noqa: BLE001
                    t["exc"] = type(ex).__name__
                traces.append(t)
        path = f"{a.out}_eval_n{n}.json"
        D.dump(path, {"traces": traces})
        files.append({"n": n, "path": path, "traces": len(traces), "events": sum(len(t["reps"]) for t in traces),
                      "sample": {k: traces[1][k] for k in ("solver", "generator", "gap", "steps", "repetitions", "p", "same_p1")} | {"rep0": traces[1]["reps"][:1]}})
    import shutil
    shutil.rmtree(logdir, ignore_errors=True)
    D.finish({"files": files, "events": sum(f["events"] for f in files)})


if __name__ == "__main__":
    main()
