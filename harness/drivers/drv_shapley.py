"""Driver for the Shapley value and exploitability entry points (C05, C06)."""
from __future__ import annotations

import argparse
import random
from math import factorial

import numpy as np

import drvlib as D
from incomplete_cooperative.coalitions import Coalition
from incomplete_cooperative.exploitability import MaxGainGame, compute_exploitability
from incomplete_cooperative.game import IncompleteCooperativeGame
from incomplete_cooperative.shapley import compute_shapley_value, compute_shapley_value_for_player


def full_game(n, values):
    g = IncompleteCooperativeGame(n)
    g.set_values(np.array(values, dtype=np.float64))
    return g


def bounds_game(n, lo, up):
    """game object whose bounds are set through the public bulk setters; empty and grand coalition known (value = lo)."""
    g = IncompleteCooperativeGame(n)
    g.set_lower_bounds(np.array(lo, dtype=np.float64))
    g.set_upper_bounds(np.array(up, dtype=np.float64))
    g.set_value(lo[-1], Coalition(2 ** n - 1))
    return g


class ProtoGame:
    """A minimal object implementing the IncompleteGame protocol without being an IncompleteCooperativeGame (C05 is stated for the
    protocol): bounds held as plain arrays -- float64, or exact Fractions in an object array (a 'symbolic' game)."""

    def __init__(self, n, lo, up, exact=False):
        from fractions import Fraction
        self.number_of_players = n
        conv = (lambda x: Fraction(float(x))) if exact else float
        self._lo = np.array([conv(x) for x in lo], dtype=object if exact else np.float64)
        self._up = np.array([conv(x) for x in up], dtype=object if exact else np.float64)
        self._up[-1] = self._lo[-1]                          # the grand coalition is known
        self._known = np.array([l == u for l, u in zip(self._lo, self._up)])

    def _sel(self, arr, coalitions):
        return arr.copy() if coalitions is None else arr[[c.id for c in coalitions]]

    def get_upper_bounds(self, coalitions=None):
        return self._sel(self._up, coalitions)

    def get_lower_bounds(self, coalitions=None):
        return self._sel(self._lo, coalitions)

    def get_upper_bound(self, coalition):
        return self._up[coalition.id]

    def get_lower_bound(self, coalition):
        return self._lo[coalition.id]

    def get_interval(self, coalition):
        return np.array([self._lo[coalition.id], self._up[coalition.id]])

    def get_intervals(self, coalitions=None):
        return np.stack([self.get_lower_bounds(coalitions), self.get_upper_bounds(coalitions)], axis=1)

    def is_value_known(self, coalition):
        return bool(self._known[coalition.id])

    def are_values_known(self, coalitions=None):
        return self._sel(self._known, coalitions)

    def get_known_value(self, coalition):
        return self._lo[coalition.id] if self._known[coalition.id] else None

    def get_known_values(self, coalitions=None):
        return self._sel(np.where(self._known, self._lo, np.nan), coalitions)

    def get_value(self, coalition):
        if not self._known[coalition.id]:
            raise ValueError("unknown")
        return self._lo[coalition.id]

    def get_values(self, coalitions=None):
        ids = range(len(self._lo)) if coalitions is None else [c.id for c in coalitions]
        return np.array([self.get_value(Coalition(i)) for i in ids])

    def copy(self):
        return ProtoGame(self.number_of_players, self._lo, self._up)

    def __add__(self, other):
        raise NotImplementedError


def scale_of(vals):
    s = 1
    while any(float(x) * s != round(float(x) * s) for x in vals):
        s *= 2
        if s > 2 ** 44:
            raise D.DriverError("not dyadic")
    return s


def sh_iv(x, n, scale, M):
    return D.interval(float(x), factorial(n) * scale, rel_ulps=8, mag=2 * M, tight=True)


def sh_iv_player(x, n, scale, v, i):
    """Certified interval of n! * scale * (Shapley value of player i) for an exactly representable game v: the value is the average
    MARGINAL contribution, and on exact-domain games every marginal v(S+i) - v(S) is an exact float, so a summation of the 2^(n-1)
    weighted marginals is off by at most (2^(n-1) + 8) roundings of the sum of their absolute values -- whatever the magnitude of the
    game's values themselves (seed C06-g: two large dot products subtracted from one another lose the small marginals)."""
    nf = factorial(n)
    cond = 0.0
    for c in range(2 ** n):
        if not c >> i & 1:
            k = bin(c).count("1")
            cond += factorial(k) * factorial(n - k - 1) * abs(float(v[c | 1 << i]) - float(v[c]))
    return D.interval(float(x), nf * scale, rel_ulps=2 ** (n - 1) + 8, mag=cond / nf + 1e-300, tight=True)


def shapley_trace(tid, n, v, partner=None, graph=None, anchor=0.0):
    """partner: values of another game of the same size whose all-players computation is consumed in lock-step with this one.
    anchor: the code is run on v + anchor * [player 0 in S] (a huge amount carried by player 0 alone).  By linearity every other player's
    Shapley value is that of v, and player 0's is that of v plus the anchor -- so the specification works on the small game v while the
    code sees values of magnitude `anchor` (seed C06-g: marginals lost against large values)."""
    scale = scale_of(v)
    M = max(1.0, max(abs(x) for x in v))
    t = {"tid": tid, "n": n, "kind": "shapley", "scale": scale, "v": D.exact_arr(v, scale), "up": [0] * 2 ** n, "w": [], "useperm": 1 if n <= 6 else 0,
         "sh_all": [], "sh_one": [], "entry_bits": 1, "en": [0, 0], "maxsh": [], "sh_w": [], "exc": "", "mg": [], "lo_after": [], "up_after": [],
         "en_after": [0, 0]}
    try:
        w = [x + anchor * (c & 1) for c, x in enumerate(v)] if anchor else v
        g = graph if graph is not None else full_game(n, w)
        if partner is None:
            allv = list(compute_shapley_value(g))
        else:
            allv = [a for a, _b in zip(compute_shapley_value(g), compute_shapley_value(full_game(n, partner)))]
        onev = [compute_shapley_value_for_player(i, g) for i in range(n)]
        if anchor:
            # player 0: the anchor is taken off the float result (an exact subtraction of nearby floats), the certified interval is at the
            # scale of ITS marginals, which contain the anchor
            def iv(x, i):
                if i:
                    return sh_iv_player(x, n, scale, v, i)
                return D.interval(float(x) - anchor, factorial(n) * scale, rel_ulps=2 ** (n - 1) + 8, mag=2 * anchor, tight=True)
            t["sh_all"] = [iv(x, i) for i, x in enumerate(allv)]
            t["sh_one"] = [iv(x, i) for i, x in enumerate(onev)]
        else:
            t["sh_all"] = [sh_iv_player(x, n, scale, v, i) for i, x in enumerate(allv)]
            t["sh_one"] = [sh_iv_player(x, n, scale, v, i) for i, x in enumerate(onev)]
        t["entry_bits"] = int(all(float(a) == float(b) for a, b in zip(allv, onev)))
        again = list(compute_shapley_value(g))                     # a second evaluation on the same object
        t["entry_bits"] &= int(all(float(a) == float(b) for a, b in zip(allv, again)))
        try:
            if anchor:
                same = [float(x) for x in g.get_values()] == [float(x) for x in w]
                t["lo_after"] = D.exact_arr(v, scale) if same else [10 ** 7] * 2 ** n
            else:
                t["lo_after"] = D.exact_arr(g.get_values(), scale)      # the game as it is after the computations
        except D.DriverError:
            t["lo_after"] = [10 ** 7] * 2 ** n
    except D.DriverError:
        raise
    except Exception as ex:  # noqa: BLE001
        t["exc"] = type(ex).__name__
    return t


def expl_trace(tid, n, lo, up):
    scale = scale_of(list(lo) + list(up))
    M = max(1.0, max(abs(x) for x in list(lo) + list(up)))
    t = {"tid": tid, "n": n, "kind": "expl", "scale": scale, "v": D.exact_arr(lo, scale), "up": D.exact_arr(up, scale), "w": [], "useperm": 0,
         "sh_all": [], "sh_one": [], "entry_bits": 1, "en": [0, 0], "maxsh": [], "sh_w": [], "exc": "", "mg": [], "lo_after": [], "up_after": [],
         "en_after": [0, 0]}
    try:
        # every third game is not an IncompleteCooperativeGame but another implementation of the protocol (floats / exact Fractions)
        g = bounds_game(n, lo, up) if tid % 3 else ProtoGame(n, lo, up, exact=(tid % 6 == 0))
        if tid % 4 == 1 and tid % 3:
            # the object was evaluated before with OTHER bounds and then changed through the public setters: nothing remembered from the
            # first evaluation may leak into the second
            g = bounds_game(n, [x - 1.0 if 0 < c < 2 ** n - 1 else x for c, x in enumerate(lo)], [x + 2.0 if 0 < c < 2 ** n - 1 else x for c, x in enumerate(up)])
            compute_exploitability(g)
            [MaxGainGame(g, i).get_values() for i in range(n)]
            g.set_lower_bounds(np.array(lo, dtype=np.float64))
            g.set_upper_bounds(np.array(up, dtype=np.float64))
        e = compute_exploitability(g)
        t["en"] = D.interval(float(e), factorial(n) * scale, rel_ulps=8 * (n + 2), mag=(2 * n + 1) * M, tight=True)
        # the per-player max-gain games, read in full and coalition by coalition; reading them must leave the game as it was
        for i in range(n):
            mg = MaxGainGame(g, i)
            full = D.exact_arr(mg.get_values(), scale)
            single = [D.exact_int(mg.get_value(Coalition(c)), scale) for c in range(2 ** n)]
            t["mg"].append(full if full == single else [x + 999983 for x in full])
        try:
            t["lo_after"] = D.exact_arr(g.get_lower_bounds(), scale)
            t["up_after"] = D.exact_arr(g.get_upper_bounds(), scale)
        except D.DriverError:
            t["lo_after"] = t["up_after"] = [10 ** 7] * 2 ** n
        t["en_after"] = D.interval(float(compute_exploitability(g)), factorial(n) * scale, rel_ulps=8 * (n + 2), mag=(2 * n + 1) * M, tight=True)
    except D.DriverError:
        raise
    except Exception as ex:  # noqa: BLE001
        t["exc"] = type(ex).__name__
    return t


def dom_trace(tid, n, lo, up, w):
    scale = scale_of(list(lo) + list(up) + list(w))
    M = max(1.0, max(abs(x) for x in list(lo) + list(up)))
    t = {"tid": tid, "n": n, "kind": "dom", "scale": scale, "v": D.exact_arr(lo, scale), "up": D.exact_arr(up, scale), "w": D.exact_arr(w, scale),
         "useperm": 1 if n <= 5 else 0, "sh_all": [], "sh_one": [], "entry_bits": 1, "en": [0, 0], "maxsh": [], "sh_w": [], "exc": "",
         "mg": [], "lo_after": [], "up_after": [], "en_after": [0, 0]}
    try:
        g = bounds_game(n, lo, up)
        t["maxsh"] = [sh_iv(compute_shapley_value_for_player(i, MaxGainGame(g, i)), n, scale, M) for i in range(n)]
        t["sh_w"] = [sh_iv(x, n, scale, M) for x in compute_shapley_value(full_game(n, w))]
    except D.DriverError:
        raise
    except Exception as ex:  # noqa: BLE001
        t["exc"] = type(ex).__name__
    return t


def refused_calls(n, rng):
    """Calls the library REFUSES (the documented ValueError for values that are not known), made in between the traces: a refused call
    must leave nothing behind that changes later results (seed C05-f: a memoised id array restored only when no exception escapes)."""
    p = rng.randrange(n)
    g = IncompleteCooperativeGame(n)
    known = [c for c in range(2 ** n) if not c >> p & 1] if rng.random() < 0.5 else [c for c in range(2 ** n) if c >> p & 1 or c == 0]
    g.set_known_values([float(rng.randint(0, 5)) for _ in known], [Coalition(c) for c in known])
    for call in (lambda: list(compute_shapley_value(g)), lambda: compute_shapley_value_for_player(p, g),
                 lambda: compute_shapley_value_for_player((p + 1) % n, g)):
        try:
            call()
        except Exception:  # noqa: BLE001
            pass


def main():
    ap = argparse.ArgumentParser()
    ap.add_argument("--out", required=True)
    ap.add_argument("--seed", type=int, default=0)
    ap.add_argument("--what", required=True, help="shapley | expl")
    ap.add_argument("--ns", default="2,3,4,5")
    ap.add_argument("--random", type=int, default=20, help="random games / bound vectors per n")
    ap.add_argument("--unit-max-n", type=int, default=8)
    a = ap.parse_args()
    rng = random.Random(a.seed * 65537 + (1 if a.what == "expl" else 2))
    files = []
    tid = 0
    for n in [int(x) for x in a.ns.split(",")]:
        NC = 2 ** n
        traces = []
        big = 1 if n >= 8 else 0
        rv = (lambda: rng.randint(-3, 6)) if n >= 8 else (lambda: rng.randint(-9, 20))
        if a.what == "shapley":
            if n <= a.unit_max_n:
                for s in range(1, NC):                     # every unit game: a basis of the games with v(empty) = 0
                    tid += 1
                    traces.append(shapley_trace(tid, n, [1.0 if c == s else 0.0 for c in range(NC)]))
            for j in range(a.random):
                tid += 1
                kind = j % 5
                if j % 3 == 0 and n >= 2:
                    refused_calls(n, rng)
                v = [0.0] + [float(rv()) for _ in range(NC - 1)]
                if n >= 11:
                    # eleven players and more (seed C06-f: a size table that loses player 10): SPARSE games -- three non-zero coalitions, one of
                    # them with the highest players -- so that the numerators n! * Shapley stay inside TLC's 32-bit integers
                    v = [0.0] * NC
                    for s_ in [rng.randrange(1, NC), (1 << (n - 1)) | (1 << 10) | rng.randrange(1, 1 << 9), rng.randrange(1, NC)]:
                        v[s_] = float(rng.randint(1, 3))
                    kind = 0
                if kind == 1:
                    v = [x / 8 for x in v]
                anchored = j % 6 == 5 and 4 <= n <= 7 and j % 7 != 6
                if anchored:
                    # 256ths next to an anchor of 2^44: each value needs 52 bits, a sum of a few dozen of them more than 53 -- nothing is
                    # exact by accident, while every MARGINAL is an exact small number
                    v = [(x * 8 if kind == 1 else x) / 256 for x in v]
                    kind = 0
                elif kind == 2:                           # a null player
                    i = rng.randrange(n)
                    v = [v[c & ~(1 << i)] for c in range(NC)]
                elif kind == 3:                           # relabelled copy of the previous game (a transposition of two players)
                    p, q = rng.sample(range(n), 2) if n >= 2 else (0, 0)
                    prev = traces[-1]["v"]
                    ps = traces[-1]["scale"]

                    def sw(c):
                        bp, bq = c >> p & 1, c >> q & 1
                        c &= ~(1 << p) & ~(1 << q)
                        return c | (bq << p) | (bp << q)
                    v = [prev[sw(c)] / ps for c in range(NC)]
                elif kind == 4:                           # integer combination of two unit games and a random game
                    s1, s2 = rng.randrange(1, NC), rng.randrange(1, NC)
                    v = [v[c] + 3 * (c == s1) - 2 * (c == s2) for c in range(NC)]
                if j % 7 == 6:
                    v = [x * 2.0 ** -30 for x in v]          # very small magnitude
                partner = [0.0] + [float(rv()) for _ in range(NC - 1)] if (j % 3 == 1 and n < 11) else None
                graph = None
                if j % 8 == 7 and 2 <= n < 11:           # a graph game (another implementation of the Game protocol)
                    from incomplete_cooperative.graph_game import GraphCooperativeGame
                    m = np.zeros((n, n))
                    for a_ in range(n):
                        for b_ in range(a_ + 1, n):
                            m[a_, b_] = rng.randint(0, 4 if n <= 8 else 1)
                    graph = GraphCooperativeGame(m)
                    v = [float(x) for x in graph.get_values()]
                    partner = None
                if anchored and graph is None:
                    traces.append(shapley_trace(tid, n, v, None, None, anchor=float(2 ** 44)))
                    continue
                traces.append(shapley_trace(tid, n, v, partner, graph))
                # the same OBJECT evaluated again after it was changed through the public API (seed C06-e: a value cached on the object):
                # a graph game normalised in place (its total weight is a power of two, so the normalised values stay exact), a tabulated
                # game with one value overwritten
                if graph is not None and j % 16 == 7:
                    from incomplete_cooperative.normalize import normalize_game
                    m = np.zeros((n, n))
                    for a_ in range(n):
                        for b_ in range(a_ + 1, n):
                            m[a_, b_] = rng.randint(0, 4 if n <= 8 else 1)
                    tot = int(m.sum())
                    m[0, n - 1] += 2 ** max(1, tot).bit_length() - tot
                    g2 = GraphCooperativeGame(m)
                    tid += 1
                    traces.append(shapley_trace(tid, n, [float(x) for x in g2.get_values()], None, g2))
                    normalize_game(g2)
                    tid += 1
                    traces.append(shapley_trace(tid, n, [float(x) for x in g2.get_values()], None, g2))
                elif graph is None and j % 4 == 2 and n < 11:
                    obj = full_game(n, v)
                    list(compute_shapley_value(obj))
                    compute_shapley_value_for_player(n - 1, obj)
                    c = rng.randrange(1, NC)
                    v2 = list(v)
                    v2[c] = v2[c] + 3.0 / scale_of(v)            # three units of the game's own grid
                    obj.set_value(v2[c], Coalition(c))
                    tid += 1
                    try:
                        traces.append(shapley_trace(tid, n, v2, None, obj))
                    except D.DriverError:
                        pass
        else:
            if n <= a.unit_max_n:
                for s in range(1, NC - 1):                # unit bound vectors (grand coalition known 0, empty 0)
                    for which in (0, 1):
                        tid += 1
                        lo = [1.0 if (c == s and which == 0) else 0.0 for c in range(NC)]
                        up = [1.0 if (c == s and which == 1) else 0.0 for c in range(NC)]
                        traces.append(expl_trace(tid, n, lo, up))
                tid += 1
                g1 = [1.0 if c == NC - 1 else 0.0 for c in range(NC)]
                traces.append(expl_trace(tid, n, g1, g1))
            for j in range(a.random):
                tid += 1
                kind = j % 5
                if j % 3 == 0 and n >= 2:
                    refused_calls(n, rng)
                lo = [0.0] + [float(rv()) for _ in range(NC - 1)]
                width = [0.0] + [float(rng.choice([0, 0, 1, 2, 5])) for _ in range(NC - 1)]
                if kind == 0:
                    width = [0.0] * NC                    # every interval degenerate
                if kind == 1:
                    width = [-w for w in width]          # lo > up somewhere
                up = [l + w for l, w in zip(lo, width)]
                up[-1] = lo[-1]
                if kind == 2:
                    lo, up = [x / 4 for x in lo], [x / 4 for x in up]
                if kind == 3:                             # random integer combination of unit vectors: linearity of the code
                    lo = [0.0] * NC
                    up = [0.0] * NC
                    for _ in range(4):
                        s = rng.randrange(1, NC - 1)
                        k = rng.randint(-3, 3)
                        (lo if rng.random() < 0.5 else up)[s] += k
                if n >= 9:
                    # beyond 8 players (fixed-width integer types change behaviour there; seed C05-e): SPARSE bound vectors, so that the
                    # numerators n! * exploitability stay inside TLC's 32-bit integers -- a few coalitions with a non-zero lower bound and a
                    # few with a non-degenerate interval, chosen so that every player (the highest ones included) is a member of some
                    lo = [0.0] * NC
                    up = [0.0] * NC
                    picks = [rng.randrange(1, NC - 1) for _ in range(5)] + [(1 << (n - 1)) | rng.randrange(1, NC // 2 - 1), (1 << (n - 2)) | rng.randrange(1, NC // 4)]
                    for s in picks:
                        lo[s] = float(rng.randint(-3, 6))
                        up[s] = lo[s] + (float(rng.choice([0, 1, 2, 5])) if kind != 0 else 0.0)
                    for s in range(1, NC - 1):
                        if s not in picks:
                            up[s] = lo[s]
                    lo[-1] = up[-1] = float(rng.randint(0, 4))
                if j % 7 == 6:
                    lo, up = [x * 2.0 ** -30 for x in lo], [x * 2.0 ** -30 for x in up]
                if j % 7 == 5 and n <= 4:
                    # a very large grand-coalition value with narrow intervals: the gap is tiny RELATIVE to v(N)
                    big = float(2 ** 21 + rng.randrange(1000))
                    lo = [0.0] + [big * bin(c).count("1") / n // 1 for c in range(1, NC)]
                    up = [l + w for l, w in zip(lo, [0.0] + [float(rng.choice([0, 0, 1, 2])) for _ in range(NC - 1)])]
                    up[-1] = lo[-1]
                traces.append(expl_trace(tid, n, lo, up))
                if (n <= 6 or n >= 9) and kind in (0, 2, 4):          # domination: completions inside the box (corners and interior points)
                    lo2 = [min(l, u) for l, u in zip(lo, up)]
                    up2 = [max(l, u) for l, u in zip(lo, up)]
                    for _ in range(3):
                        tid += 1
                        w = [rng.choice([l, u, (l + u) / 2]) for l, u in zip(lo2, up2)]
                        traces.append(dom_trace(tid, n, lo2, up2, w))
        path = f"{a.out}_{a.what}_n{n}.json"
        D.dump(path, {"traces": traces})
        files.append({"n": n, "path": path, "traces": len(traces), "events": len(traces),
                      "sample": {k: traces[-1][k] for k in ("kind", "v", "up", "sh_all", "en")} if traces else {}})
    D.finish({"files": files, "events": sum(f["events"] for f in files)})


if __name__ == "__main__":
    main()
