"""Driver for ICG_Gym / ICG_Gym_Linear and the built-in solvers (C09, C13, C16, C08-undo).

Builds real environments (directly with exact-domain game lists, or through ModelInstance.get_env() for registered generator
families), drives them through reset / step / unstep / solver queries / linear steps and logs, after every public call, what the
call returned and the environment's public state, in the Trace_Gym format.
"""
from __future__ import annotations

import argparse
import itertools
import json
import random
from functools import partial
from math import factorial

import numpy as np

import drvlib as D
import incomplete_cooperative.generators as GEN
from incomplete_cooperative.bounds import BOUNDS, compute_bounds_superadditive_monotone_approx_cached
from incomplete_cooperative.coalitions import Coalition, minimal_game_coalitions
from incomplete_cooperative.game import IncompleteCooperativeGame
from incomplete_cooperative.icg_gym import ICG_Gym
from incomplete_cooperative.icg_gym_linear import ICG_Gym_Linear
from incomplete_cooperative.run.model import GAP_FUNCTIONS, ModelInstance
from incomplete_cooperative.solvers import SOLVERS

COMP_OF_CLASS = {"superadditive": ("sa", 0), "superadditive_cached": ("sac", 0), "sam_apx_1": ("sam", 1), "sam_apx_10": ("sam", 10),
                 "sam_apx_100": ("sam", 100), "sam_apx_1000": ("sam", 1000)}


class Counting:
    """Generator wrapper: counts calls and keeps every game it returned."""

    def __init__(self, fn):
        self.fn = fn
        self.games = []

    def __call__(self, *a, **kw):
        g = self.fn(*a, **kw)
        self.games.append(g.copy())        # a snapshot: the generator may hand out one object that it refills in place
        return g


def full_game(n, values):
    g = IncompleteCooperativeGame(n)
    g.set_values(np.array(values, dtype=np.float64))
    return g


class Logger:
    def __init__(self, n, mode, scale, grid, gap, env, counting, linear_env=None):
        self.n, self.mode, self.scale, self.grid, self.gap = n, mode, scale, grid, gap
        self.env, self.counting, self.lin = env, counting, linear_env
        self.maxabs = 1.0

    def arr(self, a):
        return D.exact_arr(a, self.scale) if self.mode == "exact" else D.quant_arr(a, self.grid)

    def gap_iv(self, g):
        g = float(g)
        n = self.n
        M = self.maxabs
        if self.mode == "exact":
            if self.gap == "exploitability":
                return D.interval(g, factorial(n) * self.scale, rel_ulps=8 * (n + 2), mag=(2 * n + 1) * M, tight=True)
            if self.gap == "l2_norm":
                return D.interval(g * g, self.scale * self.scale, rel_ulps=16, mag=2 ** n * 4 * M * M, tight=True)
            return D.interval(g, self.scale, rel_ulps=4, mag=2 ** n * 2 * M, tight=True)
        q = D.quant_int(g, self.grid)
        if abs(q) * factorial(n) * 4 >= D.LIMIT:
            raise D.DriverError("gap too large for 32-bit arithmetic on the quant grid (heavy-tailed game): trace dropped")
        return [q, q]

    def obs_iv(self, obs, hidden):
        if self.mode == "exact":
            hid = D.exact_arr(hidden, self.scale)
            d = hid[-1] - sum(hid[2 ** i] for i in range(self.n))
            den = d if d != 0 else self.scale
            return [D.interval(float(x), den, rel_ulps=4, mag=1.0, tight=True) for x in obs]
        return [[D.quant_int(x, 1024.0)] * 2 for x in obs]

    def lin_obs_iv(self, obs, hidden):
        if self.mode == "exact":
            hid = D.exact_arr(hidden, self.scale)
            d = hid[-1] - sum(hid[2 ** i] for i in range(self.n))
            den = d if d != 0 else self.scale
            return [D.interval(float(x), den, rel_ulps=8 * 2 ** self.n, mag=2.0 ** self.n) for x in obs]
        return [[D.quant_int(x, 1024.0)] * 2 for x in obs]

    def env_state(self):
        env = self.env
        g = env.incomplete_game
        before = D.raw_table(g) + np.asarray(env.full_game.get_values(), dtype=np.float64).tobytes() + bytes([env.steps_taken % 251])
        st = self._env_state()
        # reading state / reward / mask / done (twice) must not change anything
        again = (np.asarray(env.state).tobytes(), float(env.reward), np.asarray(env.action_masks()).tobytes(), bool(env.done))
        after = D.raw_table(g) + np.asarray(env.full_game.get_values(), dtype=np.float64).tobytes() + bytes([env.steps_taken % 251])
        first = (np.asarray(env.state).tobytes(), float(env.reward), np.asarray(env.action_masks()).tobytes(), bool(env.done))
        st["pure"] = int(before == after and first == again)
        return st

    def _env_state(self):
        env = self.env
        g = env.incomplete_game
        hidden = env.full_game.get_values()
        self.maxabs = max(1e-9, float(np.max(np.abs(hidden))))
        return {"k": [int(b) for b in g.are_values_known()], "lo": self.arr(g.get_lower_bounds()), "up": self.arr(g.get_upper_bounds()),
                "steps": int(env.steps_taken), "hid": self.arr(hidden), "draws": len(self.counting.games),
                "mask": [int(b) for b in env.action_masks()], "obs": self.obs_iv(env.state, hidden),
                "gap": self.gap_iv(-env.reward), "done": int(bool(env.done)),
                "deg": int(bool(np.all((g.get_upper_bounds() - g.get_lower_bounds()) == 0)))}

    def raw(self):
        return D.raw_table(self.env.incomplete_game) + bytes([self.env.steps_taken % 251]) + np.asarray(self.env.state).tobytes()

    def event(self, op, a=0, ret=None, exc="", undo_bits=-1, ranks=None):
        try:
            return self._event(op, a, ret, exc, undo_bits, ranks)
        except D.DriverError:
            if self.mode != "exact":
                raise                      # float families: a drawn game left the logging grid, the trace is dropped by the caller
            # exact games in, unloggable values out: data for the specification
            n = self.n
            z = [0] * 2 ** n
            na = len(self.env.explorable_coalitions)
            env = {"k": z, "lo": z, "up": z, "steps": 0, "hid": z, "draws": len(self.counting.games), "mask": [0] * na, "obs": [[0, 0]] * na,
                   "gap": [0, 0], "done": 0, "deg": 0, "pure": 1}
            return {"op": op, "a": int(a), "exc": exc or "UnloggableOutput", "solver": "", "ret_obs": [], "ret_gap": [0, 0], "ret_done": -1,
                    "ret_info": -1, "undo_bits": undo_bits, "ranks": ranks or [], "lin_mask": [], "lin_obs": [], "lin_same": 1, "env": env}

    def _event(self, op, a=0, ret=None, exc="", undo_bits=-1, ranks=None):
        hidden = self.env.full_game.get_values()
        ev = {"op": op, "a": int(a), "exc": exc, "solver": "", "ret_obs": [], "ret_gap": [0, 0], "ret_done": -1, "ret_info": -1,
              "undo_bits": undo_bits, "ranks": ranks or [], "lin_mask": [], "lin_obs": [], "lin_same": 1}
        ev["env"] = self.env_state()
        if ret is not None and not exc:
            if op in ("reset", "lin_reset"):
                obs, info = ret
                if op == "reset":
                    ev["ret_obs"] = self.obs_iv(obs, hidden)
            else:
                obs, reward, done, _trunc, info = ret
                if op != "lin_step":
                    ev["ret_obs"] = self.obs_iv(obs, hidden)
                ev["ret_gap"] = self.gap_iv(-float(reward))
                ev["ret_done"] = int(bool(done))
                ev["ret_info"] = int(info["chosen_coalition"])
            if op in ("lin_step", "lin_reset"):
                ev["lin_ret_obs"] = self.lin_obs_iv(obs, hidden)
        if self.lin is not None:
            ev["lin_same"] = int(bool(self.lin.done) == bool(self.env.done) and float(self.lin.reward) == float(self.env.reward))
            ev["lin_mask"] = [int(b) for b in self.lin.action_masks()]
            ev["lin_obs"] = self.lin_obs_iv(ret[0] if (ret is not None and not exc and op in ("lin_step", "lin_reset")) else self.lin.state, hidden)
        return ev


def call(fn, *a):
    try:
        return fn(*a), ""
    except Exception as ex:  # noqa: BLE001  (an exception of the code under test is data)
        return None, type(ex).__name__


def dense_ranks(vals):
    order = sorted(set(vals))
    return [order.index(v) + 1 for v in vals]


def drive(lg: Logger, rng, plan, solver=None, solver_name=""):
    """plan: list of ('reset',) ('step', a|None) ('unstep', a|None) ('solve',) ('lin_reset',) ('lin_step', k|None)."""
    env = lg.env
    events = [lg.event("construct")]
    chosen = []
    for item in plan:
        op = item[0]
        if op == "reset":
            ret, exc = call(env.reset) if (rng is None or rng.random() < 0.7) else call(lambda: env.reset(seed=rng.randrange(1000)))
            chosen = []
            events.append(lg.event("reset", 0, ret, exc))
        elif op == "step":
            valid = [i for i, m in enumerate(env.action_masks()) if m]
            if not valid:
                continue
            a = item[1] if len(item) > 1 and item[1] is not None else rng.choice(valid)
            if a not in valid:
                continue
            ret, exc = call(env.step, np.int64(a) if rng is not None and rng.random() < 0.3 else a)     # numpy integers are actions too
            if not exc:
                chosen.append(a)
            events.append(lg.event("step", a, ret, exc))
        elif op == "unstep":
            if not chosen:
                continue
            a = item[1] if len(item) > 1 and item[1] is not None else rng.choice(chosen)
            if a not in chosen:
                continue
            ret, exc = call(env.unstep, a)
            if not exc:
                chosen.remove(a)
            events.append(lg.event("unstep", a, ret, exc))
        elif op == "probe":       # step + immediate unstep of every valid action: the undo property at this state
            valid = [i for i, m in enumerate(env.action_masks()) if m]
            for a in valid:
                before = lg.raw()
                ret, exc = call(env.step, a)
                events.append(lg.event("step", a, ret, exc))
                if exc:
                    continue
                ret, exc = call(env.unstep, a)
                events.append(lg.event("unstep", a, ret, exc, undo_bits=1 if lg.raw() == before else 0))
        elif op == "solve":
            valid = [i for i, m in enumerate(env.action_masks()) if m]
            if not valid:
                continue
            # every built-in solver is asked FIRST, in the state as the walk left it (seed C13-e: the driver's own probing below must not
            # move the environment out of the state the solver is judged in -- e.g. a used-up step budget); the answers are logged after
            # the probes, which supply the observed reward ranks
            asked = []
            for sname, sobj in solver.items():
                before = lg.raw()
                gcount = len(lg.counting.games)
                hid_id = id(env.full_game)
                ch, exc = call(sobj.next_step, env)
                same = lg.raw() == before and len(lg.counting.games) == gcount and id(env.full_game) == hid_id
                asked.append((sname, ch, exc, same))
            rewards = {}
            for a in valid:           # probe through the public API; logged as ordinary events
                before = lg.raw()
                ret, exc = call(env.step, a)
                events.append(lg.event("step", a, ret, exc))
                if exc:
                    continue
                rewards[a] = float(ret[1])
                ret, exc = call(env.unstep, a)
                events.append(lg.event("unstep", a, ret, exc, undo_bits=1 if lg.raw() == before else 0))
            na = len(env.action_masks())
            if len(rewards) == len(valid):
                dr = dense_ranks([rewards[a] for a in valid])
                ranks = [-1] * na
                for a, r in zip(valid, dr):
                    ranks[a] = r
            else:
                ranks = [-1] * na
            choice = None
            for sname, ch, exc, same in asked:
                ev = lg.event("solve", ch if ch is not None else 0, None, exc, undo_bits=1 if same else 0, ranks=ranks)
                ev["solver"] = sname
                events.append(ev)
                if sname == solver_name and not exc:
                    choice = ch
            exc = ""
            if choice is not None and choice in valid and (len(item) < 2 or item[1]):
                ret, exc2 = call(env.step, choice)
                if not exc2:
                    chosen.append(choice)
                events.append(lg.event("step", choice, ret, exc2))
        elif op == "lin_reset":
            ret, exc = call(lg.lin.reset)
            chosen = []
            events.append(lg.event("lin_reset", 0, ret, exc))
        elif op == "lin_step":
            allowed = [k for k, m in enumerate(lg.lin.action_masks()) if m]
            if not allowed:
                continue
            k = item[1] if len(item) > 1 and item[1] is not None else rng.choice(allowed)
            form = rng.random() if rng is not None else 1.0
            karg = k if form >= 0.45 else np.int64(k) if form < 0.15 else np.array(k) if form < 0.3 else np.array([k])   # the forms an agent's predict() hands over
            ret, exc = call(lg.lin.step, karg)
            events.append(lg.event("lin_step", k, ret, exc))
    return events


def computer(comp, r):
    if comp == "sa":
        return BOUNDS["superadditive"]
    if comp == "sac":
        return BOUNDS["superadditive_cached"]
    key = f"sam_apx_{r}"
    return BOUNDS[key] if key in BOUNDS else partial(compute_bounds_superadditive_monotone_approx_cached, repetitions=r)


def make_plan(rng, n, kind, nact):
    plan = []
    if kind == "all_orders":      # every action order, with a probe of all valid actions at every state
        return None
    if n >= 6:                    # large player counts: short episodes without exhaustive probing (2^n - n - 2 actions)
        if kind == "walk":
            for _ in range(rng.randint(1, 2)):
                for _ in range(rng.randint(3, 7)):
                    plan.append(("step", None) if rng.random() < 0.7 else ("unstep", None))
                plan.append(("reset",))
            return plan + [("step", None)] * rng.randint(0, 4)
        nact = 3 if kind == "solve" else 6
    if kind == "walk":
        for _ in range(rng.randint(1, 2)):
            for _ in range(rng.randint(2, nact + 2)):
                r = rng.random()
                plan.append(("step", None) if r < 0.6 else ("unstep", None) if r < 0.85 else ("probe",))
            plan.append(("reset",))
        plan += [("step", None)] * rng.randint(0, nact)
    elif kind == "solve":
        for _ in range(nact):
            plan.append(("solve", True))
        plan.append(("reset",))
        for _ in range(rng.randint(1, nact)):
            plan.append(("solve", rng.random() < 0.5))
            r = rng.random()
            if r < 0.45:
                plan.append(("step", None))
            elif r < 0.6:
                plan.append(("unstep", None))
    elif kind == "linear":
        for _ in range(rng.randint(1, 2)):
            for _ in range(nact + 1):
                plan.append(("lin_step", None))
            plan.append(("lin_reset",))
        plan += [("lin_step", None)] * rng.randint(0, nact)
    return plan


def build_exact_env(n, games_f, comp, r, gapname, budget, linear, inplace=False):
    src = itertools.cycle([full_game(n, v) for v in games_f])
    if inplace:
        # a generator that owns ONE game object and refills it for every episode (seed C15-f: "the same object" is not "the same game")
        box = IncompleteCooperativeGame(n)

        def refill():
            box.set_values(np.array(next(src).get_values(), dtype=np.float64))
            return box
        counting = Counting(refill)
    else:
        counting = Counting(lambda: next(src).copy())
    ig = IncompleteCooperativeGame(n, computer(comp, r))
    env = ICG_Gym(ig, counting, minimal_game_coalitions(ig), GAP_FUNCTIONS[gapname], done_after_n_actions=budget)
    return env, counting, (ICG_Gym_Linear(env) if linear else None)


def build_family_env(n, family, game_class, gapname, budget, linear, seed):
    counting = Counting(GEN.GENERATORS[family])
    GEN.GENERATORS[family] = counting          # harness-side wrapper of the registry entry, so that draws can be counted
    from incomplete_cooperative.run import model as M
    M.GENERATORS[family] = counting
    inst = ModelInstance(number_of_players=n, game_class=game_class, game_generator=family, gap_function=gapname,
                         run_steps_limit=budget, linear=linear, seed=seed)
    e = inst.get_env()
    if linear:
        return e.icg_gym, counting, e
    return e, counting, None


def main():
    ap = argparse.ArgumentParser()
    ap.add_argument("--out", required=True)
    ap.add_argument("--seed", type=int, default=0)
    ap.add_argument("--kind", default="walk", help="walk | solve | linear")
    ap.add_argument("--source", default="exact", help="exact | family")
    ap.add_argument("--ns", default="3,4")
    ap.add_argument("--count", type=int, default=10)
    ap.add_argument("--families", default="")
    ap.add_argument("--classes", default="superadditive,superadditive_cached")
    ap.add_argument("--gaps", default="exploitability,l1_norm,l2_norm,linf_norm")
    ap.add_argument("--solvers", default="greedy,greedy_worst,largest,random")
    ap.add_argument("--replay", default=None)
    a = ap.parse_args()
    if a.replay:
        spec = json.load(open(a.replay))
        groups = {}
        for i, b in enumerate(spec["behaviours"]):
            n = b["n"]
            budget = None if b["budget"] < 0 else b["budget"]
            env, counting, lin = build_exact_env(n, [[float(x) for x in g] for g in b["games"]], b["comp"], b["r"], b["gap"], budget, False)
            lg = Logger(n, "exact", 1, None, b["gap"], env, counting, lin)
            events = drive(lg, None, [tuple(p) for p in b["plan"]])
            groups.setdefault(n, []).append({
                "tid": i + 1, "n": n, "mode": "exact", "tol": 0, "tol2": 0, "lintol": 0, "comp": b["comp"], "r": b["r"], "gap": b["gap"],
                "budget": b["budget"], "cls": b["cls"], "initial": D.minimal(n), "linear": 0, "solver": "", "family": "",
                "games": [lg.arr(g.get_values()) for g in counting.games], "events": events})
        files = []
        for n, traces in sorted(groups.items()):
            path = f"{a.out}_replay_n{n}.json"
            D.dump(path, {"traces": traces})
            files.append({"n": n, "path": path, "traces": len(traces), "events": sum(len(t["events"]) for t in traces),
                          "sample": {"ops": [[e["op"], e["a"]] for e in traces[0]["events"]][:14]}})
        D.finish({"files": files, "events": sum(f["events"] for f in files)})
        return
    rng = random.Random(a.seed * 31337 + hash((a.kind, a.source)) % 1000)
    np.random.seed(a.seed + 5)
    files = []
    tid = 0
    gaps = a.gaps.split(",")
    solvers = a.solvers.split(",")
    classes = a.classes.split(",")
    fams = [f for f in a.families.split(",") if f]
    for n in [int(x) for x in a.ns.split(",")]:
        traces = []
        nact = 2 ** n - n - 2
        prev_games, prev_cls, prev_gap, prev_comp = None, None, None, None
        for i in range(a.count):
            tid += 1
            # exact source: gap cycles with the trace index; family source: every (family, gap) pair is visited
            gapname = gaps[i % len(gaps)] if (a.source == "exact" or not fams) else gaps[(i // len(fams)) % len(gaps)]
            budget = rng.choice([None, None, 0, 1, 2, nact]) if a.kind != "solve" else rng.choice([None, None, 1, 2, 3, nact])
            linear = a.kind == "linear"
            solver_name = solvers[(i // len(gaps)) % len(solvers)] if a.kind == "solve" else ""
            if a.source == "exact":
                cname = classes[i % len(classes)]
                comp, r = COMP_OF_CLASS[cname]
                cls = "SAM" if comp == "sam" else "SA"
                games_f = []
                for _ in range(4):
                    if cls == "SA":
                        v = (D.random_sa_game_cancelling(n, rng) if rng.random() < 0.15 else
                             D.random_sa_game(n, rng, sing=rng.choice([(-5, 9), (0, 0), (-9, -1)])))
                        if rng.random() < 0.25:
                            v = [x / 4 for x in v]
                    else:
                        v = D.random_sam_game(n, rng)
                    games_f.append([float(x) for x in v])
                if rng.random() < 0.15 and cls == "SA":      # an additive game: surplus exactly 0
                    w = [rng.randint(0, 5) for _ in range(n)]
                    games_f[1] = [float(sum(w[j] for j in range(n) if c >> j & 1)) for c in range(2 ** n)]
                if rng.random() < 0.1:
                    games_f = [[x * 2.0 ** -30 for x in g] for g in games_f]      # very small magnitude, still exact (all games of the trace alike)
                # every other trace sees the SAME hidden games as the one before it, under another game class / gap function, in the same
                # interpreter (seeds C09-f, C12-a: process-wide memos keyed by part of what the result depends on)
                if i % 2 == 1 and prev_games is not None and (prev_cls == "SAM" or comp != "sam"):
                    games_f, cls = prev_games, prev_cls
                    gapname = prev_gap                       # the same gap function object, too
                    if prev_comp == "sam" and "superadditive_cached" in classes:
                        comp, r = "sac", 0                   # another KIND of computer on the same games: its bounds differ
                prev_games, prev_cls, prev_gap, prev_comp = games_f, cls, gapname, comp
                mode = "exact"
                scale = 1
                while any(x * scale != round(x * scale) for g in games_f for x in g):
                    scale *= 2
                grid = None
                env, counting, lin = build_exact_env(n, games_f, comp, r, gapname, budget, linear, inplace=(i % 4 == 2))
                tol, tol2 = 0, 0
            else:
                family = fams[i % len(fams)]
                sam_family = family.startswith(("xos", "xs", "oxs", "k_budget", "covg"))
                cands = [c for c in classes if (COMP_OF_CLASS[c][0] == "sam") <= sam_family]
                cname = cands[(i // (len(fams) * len(gaps))) % len(cands)] if a.count > len(fams) * len(gaps) else cands[rng.randrange(len(cands))]
                comp, r = COMP_OF_CLASS[cname]
                cls = "SAM" if sam_family else "SA"
                mode = "quant"
                env, counting, lin = build_family_env(n, family, cname, gapname, budget, linear, a.seed * 977 + tid)
                mx = max(1e-6, float(np.max(np.abs(env.full_game.get_values()))))
                scale = None
                grid = 2.0 ** 16 / D.pow2_at_least(4 * mx)
                tol, tol2 = 1, n + 2
                if family in ("k_budget_generator", "covg_fn_generator"):
                    # integer-valued families are exactly representable: full refinement against the specification (bounds recomputed by
                    # TLC from the knowledge alone), not only the clauses that can be judged on a grid (seed C09-e: stale SAM bounds)
                    mode, scale, grid, tol, tol2 = "exact", 1, None, 0, 0
            lg = Logger(n, mode, scale, grid, gapname, env, counting, lin)
            solver = {s: SOLVERS[s](ModelInstance(seed=a.seed + tid)) for s in solvers} if solver_name else None
            plan = make_plan(rng, n, a.kind, nact)
            try:
                events = drive(lg, rng, plan, solver, solver_name)
                games_logged = [lg.arr(g.get_values()) for g in counting.games]
            except D.DriverError:
                continue          # a drawn game left the logging grid (float families): trace dropped
            traces.append({"tid": tid, "n": n, "mode": mode, "tol": tol, "tol2": tol2, "lintol": 0 if mode == "exact" else 2 ** n,
                           "comp": comp, "r": r, "gap": gapname, "budget": -1 if budget is None else budget, "cls": cls,
                           "initial": D.minimal(n), "linear": int(linear), "solver": solver_name,
                           "family": "" if a.source == "exact" else family, "games": games_logged, "events": events})
        path = f"{a.out}_{a.kind}_{a.source}_n{n}.json"
        D.dump(path, {"traces": traces})
        files.append({"n": n, "path": path, "traces": len(traces), "events": sum(len(t["events"]) for t in traces),
                      "sample": {"tid": traces[0]["tid"], "comp": traces[0]["comp"], "gap": traces[0]["gap"], "budget": traces[0]["budget"],
                                 "solver": traces[0]["solver"], "family": traces[0]["family"], "hidden": traces[0]["games"][1],
                                 "ops": [[e["op"], e["a"]] for e in traces[0]["events"]][:14]} if traces else {}})
    D.finish({"files": files, "events": sum(f["events"] for f in files)})


if __name__ == "__main__":
    main()
