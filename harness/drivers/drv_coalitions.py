"""Driver for C18: coalition operations in both representations and the class predicates."""
from __future__ import annotations

import argparse
import itertools
import random

import numpy as np

import drvlib as D
from incomplete_cooperative import coalition_ids as CI
from incomplete_cooperative.coalitions import (Coalition, all_coalitions, disjoint_coalitions, exclude_coalition, get_sub_coalitions,
                                               get_super_coalitions, grand_coalition, minimal_game_coalitions, player_to_coalition)
from incomplete_cooperative.game import IncompleteCooperativeGame
from incomplete_cooperative.game_properties import is_monotone_decreasing, is_sam, is_superadditive
from incomplete_cooperative.supermodularity_check import check_supermodularity


def guarded(t, fn):
    try:
        fn()
    except Exception as ex:  # noqa: BLE001
        t["exc"] = type(ex).__name__
    return t


def coal_item(tid, n, c, light=False):
    t = {"tid": tid, "kind": "coal", "c": c, "exc": "", "players": [], "id_players": [], "size": -1, "id_size": -1, "compl": 0, "from_players": -1,
         "subs": [], "id_subs": [], "supers": [], "id_supers": []}

    def body():
        co = Coalition(c)
        t["players"] = [int(x) for x in co.players]
        t["id_players"] = [int(x) for x in CI.players(c, n)]
        t["size"] = len(co)
        t["id_size"] = int(CI.get_size(c, n))
        t["compl"] = int(co.inverted(n).id)
        t["from_players"] = int(Coalition.from_players(t["players"]).id)
        if light:                      # large player counts: without the (exponentially long) sub-/super-coalition lists
            return
        # consumption patterns first (seed C18-f: a memoised, non re-entrant iterable): two enumerations of the same coalition's
        # sub-coalitions nested in one another and advanced in lock-step, and super-coalitions asked for while sub-coalitions are being
        # enumerated; whatever the pattern, each enumeration yields the complete list
        nested = []
        if c % 3 == 0 and len(co) <= 6:
            for a_ in get_sub_coalitions(co):
                inner = [int(b_.id) for b_ in get_sub_coalitions(co)]
                sup_inner = [int(b_.id) for b_ in get_super_coalitions(co.inverted(n), n)] if len(co) <= 4 else None
                nested.append((int(a_.id), inner, sup_inner))
            lock = [(int(a_.id), int(b_.id)) for a_, b_ in zip(get_sub_coalitions(co), get_sub_coalitions(co))]
        t["subs"] = [int(x.id) for x in get_sub_coalitions(co)]
        if nested:
            if ([a_ for a_, _i, _s in nested] != t["subs"] or any(i_ != t["subs"] for _a, i_, _s in nested)
                    or [a_ for a_, _b in lock] != t["subs"] or [b_ for _a, b_ in lock] != t["subs"]
                    or any(s_ is not None and sorted(s_) != sorted(x | (2 ** n - 1 - c) for x in t["subs"]) for _a, _i, s_ in nested)):
                t["subs"] = t["subs"][:-1] + [-7]          # reported through the enumeration clause
        # arrays handed out by the id helpers belong to the caller: they are overwritten here, which must not reach later answers
        # (seed C02-f: get_all_coalitions memoised, one shared mutable array per player count)
        for arr in (CI.get_all_coalitions(n), CI.sub_coalitions(c, n), CI.super_coalitions(c, n), CI.players(c, n)):
            if isinstance(arr, np.ndarray) and arr.size:
                arr[...] = arr[::-1].copy() if c % 2 else 0
        t["id_subs"] = [int(x) for x in CI.sub_coalitions(c, n)]
        t["supers"] = [int(x.id) for x in get_super_coalitions(co, n)]
        t["id_supers"] = [int(x) for x in CI.super_coalitions(c, n)]
    return guarded(t, body)


def helper_item(tid, n, c):
    """module-level helpers: all coalitions, grand coalition, minimal-game coalitions, singleton of a player, coalitions avoiding c"""
    t = {"tid": tid, "kind": "helper", "c": c, "exc": "", "all": [], "grand": -1, "minimal": [], "singles": [], "avoid": [], "hash_ok": 0}

    def body():
        t["all"] = [int(x.id) for x in all_coalitions(n)]
        t["grand"] = int(grand_coalition(n).id)
        t["minimal"] = [int(x.id) for x in minimal_game_coalitions(n)]
        t["singles"] = [int(player_to_coalition(i).id) for i in range(n)]
        t["avoid"] = [int(x.id) for x in exclude_coalition(Coalition(c), all_coalitions(n))]
        t["hash_ok"] = int(Coalition(c) in {Coalition(c), Coalition(0)} and len({Coalition(c), Coalition(c)}) == 1)
    return guarded(t, body)


def pair_item(tid, a, b):
    t = {"tid": tid, "kind": "pair", "a": a, "b": b, "exc": "", "or": 0, "and": 0, "sub": 0, "contains": 0, "disjoint": 0, "eq": 0}

    def body():
        A, B = Coalition(a), Coalition(b)
        t["or"], t["and"], t["sub"] = int((A | B).id), int((A & B).id), int((A - B).id)
        t["contains"] = int(B in A)
        t["disjoint"] = int(bool(disjoint_coalitions(A, B)))
        t["eq"] = int(A == B)
    return guarded(t, body)


def player_item(tid, a, i):
    t = {"tid": tid, "kind": "player", "a": a, "i": i, "exc": "", "add": 0, "rem": 0, "has": 0, "orp": 0, "andp": 0}

    def body():
        A = Coalition(a)
        t["add"], t["rem"], t["has"] = int((A + i).id), int((A - i).id), int(i in A)
        t["orp"], t["andp"] = int((A | i).id), int((A & i).id)
    return guarded(t, body)


def game_of(n, v):
    g = IncompleteCooperativeGame(n)
    g.set_values(np.array(v, dtype=np.float64))
    return g


def pred_item(tid, n, v, supermod=True):
    t = {"tid": tid, "kind": "pred", "v": [int(x) for x in v], "exc": "", "sa": 0, "mono": 0, "sam": 0, "supermod": -1}

    def body():
        g = game_of(n, v)
        t["sa"], t["mono"], t["sam"] = int(bool(is_superadditive(g))), int(bool(is_monotone_decreasing(g))), int(bool(is_sam(g)))
        if supermod:
            t["supermod"] = int(check_supermodularity(g) is None)
    return guarded(t, body)


def tol_item(tid, n, m, e):
    """a game whose only violation of superadditivity is m * 2^-e relative to v(U) = 1 (U = first pair of players)."""
    t = {"tid": tid, "kind": "tolpred", "m": m, "e": e, "exc": "", "sa": 0}

    def body():
        v = [0.0] * 2 ** n
        for c in range(1, 2 ** n):
            v[c] = float(bin(c).count("1"))            # additive: superadditive with equality everywhere
        v[3] = 2.0                                       # U = {0,1}: v(U) = 2 = v(0)+v(1)
        v[1] = 1.0 + 2.0 * m * 2.0 ** -e                 # lhs = v(0)+v(1) = 2 + 2m2^-e : relative violation m*2^-e of v(U)=2
        for c in range(4, 2 ** n):
            if c & 1:
                v[c] += 1.0                              # keep the other constraints slack
        g = game_of(n, v)
        t["sa"] = int(bool(is_superadditive(g)))
    return guarded(t, body)


def main():
    ap = argparse.ArgumentParser()
    ap.add_argument("--out", required=True)
    ap.add_argument("--seed", type=int, default=0)
    ap.add_argument("--ns", default="1,2,3,4,5,6")
    ap.add_argument("--all-pairs-max-n", type=int, default=4)
    ap.add_argument("--pair-samples", type=int, default=300)
    ap.add_argument("--random-preds", type=int, default=40)
    ap.add_argument("--big-ns", default="", help="player counts beyond the model's tables: sampled coalition / pair / player items only")
    ap.add_argument("--coal-sample-above", type=int, default=99, help="for n above this, a sample of the coalitions instead of all of them")
    a = ap.parse_args()
    rng = random.Random(a.seed * 4099 + 1)
    files = []
    tid = 0
    for n in [int(x) for x in a.ns.split(",") if x]:
        NC = 2 ** n
        items = []
        if n <= a.coal_sample_above:
            coal_ids = list(range(NC))
        else:       # every singleton, every co-singleton, empty, grand, the coalitions of the two highest players, and a random sample
            coal_ids = sorted({0, NC - 1, NC // 2, NC // 4, NC // 2 + NC // 4} | {1 << i for i in range(n)} | {NC - 1 - (1 << i) for i in range(n)}
                              | {rng.randrange(NC) for _ in range(60)} | {rng.randrange(NC // 2, NC) for _ in range(30)})
        for c in coal_ids:
            tid += 1
            items.append(coal_item(tid, n, c))
        for c in (range(NC) if n <= 5 else [rng.randrange(NC) for _ in range(16)]):
            tid += 1
            items.append(helper_item(tid, n, c))
        pairs = list(itertools.product(range(NC), repeat=2)) if n <= a.all_pairs_max_n else \
            [(rng.randrange(NC), rng.randrange(NC)) for _ in range(a.pair_samples)]
        for x, y in pairs:
            tid += 1
            items.append(pair_item(tid, x, y))
        for c in (range(NC) if n <= 6 else [rng.randrange(NC) for _ in range(64)]):
            for i in range(n):
                tid += 1
                items.append(player_item(tid, c, i))
        if n == 2:
            for v in itertools.product((-1, 0, 1), repeat=4):
                tid += 1
                items.append(pred_item(tid, n, v))
        if n == 3:
            for v in itertools.product((-1, 0, 1), repeat=7):
                tid += 1
                items.append(pred_item(tid, n, (0,) + v))
        if n in (4, 5):
            for j in range(a.random_preds):
                tid += 1
                kind = j % 4
                if kind == 0:
                    v = D.random_sa_game(n, rng)
                elif kind == 1:
                    v = D.random_sam_game(n, rng)
                elif kind == 2:
                    v = D.random_any_game(n, rng, (-2, 2))
                else:
                    v = D.random_sa_game(n, rng)
                    c = rng.randrange(3, NC)
                    v[c] -= 1                                      # break superadditivity at one coalition (maybe)
                items.append(pred_item(tid, n, v, supermod=(n == 4)))
        if n == 3:
            for e in (40, 36, 33, 31, 29, 27, 24, 20, 12):
                for m in (1, 3):
                    tid += 1
                    items.append(tol_item(tid, n, m, e))
        path = f"{a.out}_coal_n{n}.json"
        D.dump(path, {"traces": items})
        kinds = {}
        for it in items:
            kinds[it["kind"]] = kinds.get(it["kind"], 0) + 1
        files.append({"n": n, "path": path, "traces": len(items), "events": len(items), "kinds": kinds, "sample": items[min(len(items) - 1, len(coal_ids) + 5)]})
    big_files = []
    for n in [int(x) for x in a.big_ns.split(",") if x]:
        NC = 2 ** n
        coal_ids = sorted({0, NC - 1, NC // 2, NC // 4, NC // 2 + NC // 4} | {1 << i for i in range(n)} | {NC - 1 - (1 << i) for i in range(n)}
                          | {rng.randrange(NC) for _ in range(60)} | {rng.randrange(NC // 2, NC) for _ in range(30)})
        items = []
        for c in coal_ids:
            tid += 1
            items.append(coal_item(tid, n, c, light=True))
        for _ in range(a.pair_samples):
            tid += 1
            x, y = rng.randrange(NC), rng.randrange(NC)
            if rng.random() < 0.3:
                y = x & rng.randrange(NC)          # sub-coalitions are rare among random pairs of large games
            items.append(pair_item(tid, x, y))
        for c in [rng.randrange(NC) for _ in range(48)] + [NC - 1, NC // 2]:
            for i in range(n):
                tid += 1
                items.append(player_item(tid, c, i))
        path = f"{a.out}_coalbig_n{n}.json"
        D.dump(path, {"traces": items})
        kinds = {}
        for it in items:
            kinds[it["kind"]] = kinds.get(it["kind"], 0) + 1
        big_files.append({"n": n, "path": path, "traces": len(items), "events": len(items), "kinds": kinds, "sample": items[len(coal_ids) // 2]})
    D.finish({"files": files, "big_files": big_files, "events": sum(f["events"] for f in files + big_files)})


if __name__ == "__main__":
    main()
