"""Driver for C11 and the expected-greedy part of C13: exhaustive search over reveal sets with several worker-process counts,
the meta-game, best-states and expected-greedy, on exact-domain games."""
from __future__ import annotations

import argparse
import itertools
import random
from functools import partial
from math import factorial

import numpy as np

import drvlib as D
from incomplete_cooperative.bounds import BOUNDS, compute_bounds_superadditive_monotone_approx_cached
from incomplete_cooperative.coalitions import Coalition, minimal_game_coalitions
from incomplete_cooperative.game import IncompleteCooperativeGame
from incomplete_cooperative.gameplay import (get_exploitabilities_of_action_sequences, get_stacked_exploitabilities_of_action_sequences,
                                             sample_exploitabilities_of_action_sequences)
from incomplete_cooperative.icg_gym import ICG_Gym
from incomplete_cooperative.meta_game import MetaGame
from incomplete_cooperative.run.best_states import get_best_exploitability
from incomplete_cooperative.run.greedy import get_greedy_rewards
from incomplete_cooperative.run.model import GAP_FUNCTIONS


def computer(comp, r):
    if comp == "sa":
        return BOUNDS["superadditive"]
    if comp == "sac":
        return BOUNDS["superadditive_cached"]
    key = f"sam_apx_{r}"
    return BOUNDS[key] if key in BOUNDS else partial(compute_bounds_superadditive_monotone_approx_cached, repetitions=r)


def full_game(n, v):
    g = IncompleteCooperativeGame(n)
    g.set_values(np.array(v, dtype=np.float64))
    return g


def gap_iv(g, n, gap, scale, M):
    g = float(g)
    if gap == "exploitability":
        return D.interval(g, factorial(n) * scale, rel_ulps=8 * (n + 2), mag=(2 * n + 1) * M, tight=True)
    if gap == "l2_norm":
        return D.interval(g * g, scale * scale, rel_ulps=16, mag=2 ** n * 4 * M * M, tight=True)
    return D.interval(g, scale, rel_ulps=4, mag=2 ** n * 2 * M, tight=True)


def scale_of(vals):
    s = 1
    while any(float(x) * s != round(float(x) * s) for x in vals):
        s *= 2
    return s


def base(tid, n, kind, comp, r, gap, k0, scale):
    return {"tid": tid, "n": n, "kind": kind, "comp": comp, "r": r, "gap": gap, "k0": sorted(k0), "scale": scale, "exc": "", "hid": [], "k": 0, "p": 0,
            "seqs": [], "vals": [], "same_p1": -1, "chosen": [], "val": [0, 0], "max_steps": 0, "actions": [], "rows": [], "games": [], "inclass": 0,
            "seq": [], "eps": 0, "exh_upto": 0}


def random_game(n, rng, cls):
    if cls == "SA":
        v = D.random_sa_game(n, rng, sing=rng.choice([(-3, 6), (0, 0), (-6, -1)]))
        if rng.random() < 0.2:
            v = [x / 2 for x in v]
    elif cls == "SAM":
        v = D.random_sam_game(n, rng)
    else:
        v = D.random_any_game(n, rng)
    return [float(x) for x in v]


class Counting:
    def __init__(self, games):
        self.src = itertools.cycle(games)
        self.games = []

    def __call__(self, *a):
        g = next(self.src).copy()
        self.games.append(g)
        return g


def main():
    ap = argparse.ArgumentParser()
    ap.add_argument("--out", required=True)
    ap.add_argument("--seed", type=int, default=0)
    ap.add_argument("--what", required=True, help="search | best | greedy")
    ap.add_argument("--ns", default="3,4")
    ap.add_argument("--count", type=int, default=6)
    ap.add_argument("--procs", default="1,2,3,4")
    a = ap.parse_args()
    rng = random.Random(a.seed * 1543 + {"search": 1, "best": 2, "greedy": 3}[a.what])
    procs = [int(x) for x in a.procs.split(",")]
    files = []
    tid = 0
    for n in [int(x) for x in a.ns.split(",")]:
        traces = []
        minimal = D.minimal(n)
        expl = D.explorable(n)
        for i in range(a.count):
            comp, r = rng.choice([("sa", 0), ("sac", 0), ("sam", 1), ("sam", 10)])
            cls = "SAM" if comp == "sam" else rng.choice(["SA", "SA", "ANY"]) if a.what == "search" else "SA"
            gaps = ["exploitability", "l1_norm", "linf_norm"] + (["l2_norm"] if a.what == "search" else [])
            gap = gaps[i % len(gaps)]
            if a.what in ("best", "greedy") and i % 2 == 1:
                # games outside the class: the curve of best sets need not be monotone (seed C11-d); norm gaps stay >= 0
                cls, gap = "ANY", ("l1_norm", "linf_norm")[(i // 2) % 2]
                gapf = GAP_FUNCTIONS[gap]
                if comp == "sam":
                    comp, r = ("sa", "sac")[(i // 4) % 2], 0
            gapf = GAP_FUNCTIONS[gap]
            tiny = 2.0 ** -30 if (a.what in ("search", "best") and rng.random() < 0.35) else 1.0    # games of very small magnitude (still exact)
            if a.what == "search":
                v = [x * tiny for x in random_game(n, rng, cls)]
                scale = scale_of(v)
                M = max(abs(x) for x in v) or 1.0
                extra = [c for c in expl if rng.random() < (0.25 if n >= 4 else 0.15)]
                k0 = minimal + extra
                k = rng.choice([0, 1, 2, 3]) if n >= 4 else rng.choice([0, 1, 2, 3, None])
                fg = full_game(n, v)
                first = None
                shared_game = None
                for p in procs:
                    tid += 1
                    t = base(tid, n, "search", comp, r, gap, k0, scale)
                    t.update({"hid": D.exact_arr(v, scale), "k": len(expl) if k is None else k, "p": p})
                    # every other configuration hands the SAME game object to the searches of all process counts, one after the other (seed
                    # C11-g: the in-process path of one worker left the caller's game changed); a search must leave its argument as it was
                    if shared_game is None or i % 2 == 1:
                        game = IncompleteCooperativeGame(n, computer(comp, r))
                        game.set_known_values([v[c] for c in k0], [Coalition(c) for c in k0])
                        if rng.random() < 0.5:
                            game.compute_bounds()
                        shared_game = game
                    else:
                        game = shared_game
                    known_before = [int(b) for b in game.are_values_known()]
                    try:
                        res = list(get_exploitabilities_of_action_sequences(game, fg, gapf, max_size=k, processes=p))
                        if [int(b) for b in game.are_values_known()] != known_before:
                            res = res[:-1]                       # reported through the enumeration clause
                        t["seqs"] = [[int(c.id) for c in seq] for seq, _ in res]
                        t["vals"] = [gap_iv(val, n, gap, scale, M) for _, val in res]
                        # the result as a mapping reveal set -> gap (the order of the list is not part of the property)
                        sig = sorted((tuple(sorted(s)), float(val).hex()) for s, (_, val) in zip(t["seqs"], res))
                        if first is None:
                            first = sig
                        t["same_p1"] = int(sig == first)
                    except D.DriverError:
                        raise
                    except Exception as ex:  # noqa: BLE001
                        t["exc"] = type(ex).__name__
                    traces.append(t)
                # the sampling form: one fresh game per sample, the same reveal sets evaluated on each of them
                if i % 2 == 0:
                    tid += 1
                    samples = rng.randint(1, 3)
                    ks = rng.choice([0, 1, 2])
                    p = rng.choice(procs)
                    games_f = [v] + [[x * tiny for x in random_game(n, rng, cls)] for _ in range(samples - 1)]
                    sc2 = scale_of([x for g in games_f for x in g])
                    M2 = max(abs(x) for g in games_f for x in g) or 1.0
                    t = base(tid, n, "sample", comp, r, gap, k0, sc2)
                    t.update({"k": ks, "p": p, "games": [D.exact_arr(g, sc2) for g in games_f], "max_steps": samples})
                    counting = Counting([full_game(n, g) for g in games_f])
                    game = IncompleteCooperativeGame(n, computer(comp, r))
                    game.set_known_values([7.0 for c in k0], [Coalition(c) for c in k0])       # stale values: every sample must overwrite them
                    try:
                        acts, values = sample_exploitabilities_of_action_sequences(game, counting, gapf, samples=samples, max_size=ks, processes=p)
                        t["seqs"] = [[int(c.id) for c in seq] for seq in acts]
                        t["rows"] = [[gap_iv(x, n, gap, sc2, M2) for x in row] for row in np.asarray(values)]
                        t["same_p1"] = int(len(counting.games) == samples)
                    except D.DriverError:
                        raise
                    except Exception as ex:  # noqa: BLE001
                        t["exc"] = type(ex).__name__
                    traces.append(t)
                    # the stacked form: given action sequences (any order, repeats and already-known coalitions allowed) on given games
                    tid += 1
                    p = rng.choice(procs)
                    t = base(tid, n, "stacked", comp, r, gap, k0, sc2)
                    seqs = []
                    for _ in range(rng.randint(1, 4)):
                        pool = expl + minimal
                        seq = [rng.choice(pool) for _ in range(rng.randint(0, 4))]
                        seqs.append(seq)
                    t.update({"p": p, "games": [D.exact_arr(g, sc2) for g in games_f], "seqs": seqs})
                    game = IncompleteCooperativeGame(n, computer(comp, r))
                    game.set_known_values([v[c] for c in k0], [Coalition(c) for c in k0])
                    try:
                        out = list(get_stacked_exploitabilities_of_action_sequences(game, [full_game(n, g) for g in games_f],
                                                                                    ([Coalition(c) for c in seq] for seq in seqs), gapf, processes=p))
                        t["rows"] = [[gap_iv(x, n, gap, sc2, M2) for x in row] for row in out]
                    except D.DriverError:
                        raise
                    except Exception as ex:  # noqa: BLE001
                        t["exc"] = type(ex).__name__
                    traces.append(t)
                # the meta-game over coalitions returns the same quantity
                mg = MetaGame(fg, IncompleteCooperativeGame(n, computer(comp, r)), gapf)
                bulk = None
                if n == 3:
                    try:
                        bulk = [float(x) for x in mg.get_values()] if mg.number_of_players == len(expl) else None     # all 2^m meta coalitions at once
                    except Exception:  # noqa: BLE001
                        bulk = "exc"
                for _ in range(4 if n >= 4 else 8):
                    tid += 1
                    t = base(tid, n, "meta", comp, r, gap, minimal, scale)
                    meta_id = rng.randrange(2 ** len(expl))
                    chosen = [expl[j] for j in range(len(expl)) if meta_id >> j & 1]
                    t.update({"hid": D.exact_arr(v, scale), "chosen": chosen})
                    try:
                        one = mg.get_value(Coalition(meta_id))
                        if bulk == "exc" or (bulk is not None and float(one).hex() != float(bulk[meta_id]).hex()) or (n == 3 and bulk is None):
                            one = float("nan")               # the bulk form disagrees with the single form (or the meta game miscounts its players)
                        t["val"] = gap_iv(one, n, gap, scale, M)
                    except D.DriverError:
                        raise
                    except Exception as ex:  # noqa: BLE001
                        t["exc"] = type(ex).__name__
                    traces.append(t)
                    if _ % 2 == 1 and cls != "ANY":
                        # the underlying game is CHANGED in place (one explorable value raised; a superadditive game stays one when the
                        # grand coalition is raised) and the same meta-coalition is asked again: the meta-game follows its game
                        # (seed C11-f: get_value memoised on the MetaGame object)
                        v3 = list(v)
                        v3[-1] = v3[-1] + (2.0 if tiny == 1.0 else 2.0 * tiny)
                        fg.set_value(v3[-1], Coalition(2 ** n - 1))
                        tid += 1
                        t = base(tid, n, "meta", comp, r, gap, minimal, scale)
                        t.update({"hid": D.exact_arr(v3, scale), "chosen": chosen})
                        try:
                            t["val"] = gap_iv(mg.get_value(Coalition(meta_id)), n, gap, scale, max(M, abs(v3[-1])))
                        except D.DriverError:
                            raise
                        except Exception as ex:  # noqa: BLE001
                            t["exc"] = type(ex).__name__
                        traces.append(t)
                        fg.set_value(v[-1], Coalition(2 ** n - 1))        # and back
            else:
                reps = rng.randint(1, 3)
                shape = rng.random()
                if cls == "ANY":
                    shape = 1.0
                if shape < 0.2:                      # additive games: the gap is closed from the start
                    games_f = []
                    for _ in range(reps):
                        w = [rng.randint(0, 5) * (-1 if cls == "SAM" else 1) for _ in range(n)]      # in class for the computer used
                        games_f.append([float(sum(w[i] for i in range(n) if c >> i & 1)) * tiny for c in range(2 ** n)])
                elif shape < 0.4 and cls != "SAM":   # factory games with one owner: the gap closes before everything is revealed
                    o = rng.randrange(n)
                    games_f = [[float(bin(c).count("1") - 1) * tiny if c >> o & 1 else 0.0 for c in range(2 ** n)] for _ in range(reps)]
                elif cls == "ANY":                   # far outside the class: values that jump up and down with the coalition size, so
                    games_f = []                     # that one more reveal can WIDEN the gap (seed C11-d: the curve need not be monotone)
                    for _ in range(reps):
                        z = [0, 0] + [rng.randint(-10, 10) for _ in range(n - 1)]
                        if rng.random() < 0.6:            # big pairs, negative larger coalitions, small grand value
                            z = [0, 0, rng.randint(5, 12)] + [-rng.randint(5, 12) for _ in range(n - 3)] + [rng.randint(0, 2)]
                        games_f.append([float(z[bin(c).count("1")] + (rng.randint(0, 1) if bin(c).count("1") >= 2 else 0)) * tiny for c in range(2 ** n)])
                else:
                    games_f = [[x * tiny for x in random_game(n, rng, cls)] for _ in range(reps)]
                scale = scale_of([x for g in games_f for x in g])
                M = max(abs(x) for g in games_f for x in g) or 1.0
                max_steps = rng.randint(0, 3) if n == 3 else (rng.randint(1, 2) if a.what == "best" else rng.choice([1, 2, 3, 5, 8]))
                # the generator is called twice by the environment's constructor, then once per sampled game
                counting = Counting([full_game(n, g) for g in [games_f[0], games_f[0]] + games_f])
                ig = IncompleteCooperativeGame(n, computer(comp, r))
                env = ICG_Gym(ig, counting, minimal_game_coalitions(ig), gapf, done_after_n_actions=None)
                p = rng.choice(procs)
                tid += 1
                k0 = list(minimal)
                if a.what == "best" and i % 3 == 0:
                    # best-states asked of an environment in which something was already revealed: its starting knowledge is then the
                    # minimal information plus those coalitions (seed C11-e: block sizes computed from the explorable count)
                    for _ in range(rng.randint(1, 2)):
                        valid = [j for j, m_ in enumerate(env.action_masks()) if m_]
                        if valid:
                            j = rng.choice(valid)
                            env.step(j)
                            k0.append(int(env.explorable_coalitions[j].id))
                t = base(tid, n, a.what, comp, r, gap, k0, scale)
                t.update({"max_steps": max_steps, "p": p, "inclass": int(cls != "ANY"), "exh_upto": 2 if n >= 4 else 3})
                drawn_before = len(counting.games)
                try:
                    if a.what == "best":
                        rows, actions = get_best_exploitability(env, max_steps, reps, gapf, processes=p)
                        t["actions"] = [[int(c) for c in acts] for acts in actions]
                    else:
                        rnd = random.Random(a.seed + tid) if rng.random() < 0.5 else None
                        rows, seq = get_greedy_rewards(env, max_steps, reps, gapf, processes=p, random=rnd)
                        t["seq"] = [int(c) for c in seq]
                    sampled = counting.games[drawn_before:]        # the games drawn during the call, however many the constructor drew
                    t["games"] = [D.exact_arr(g.get_values(), scale) for g in sampled]
                    # the code's placeholder for "no row" is exactly -1.0; a gap of -1e-16 (rounding residue of an exploitability of 0) is a gap
                    t["rows"] = [[gap_iv(x, n, gap, scale, M) if float(x) != -1.0 else [-1, -1] for x in row] for row in np.asarray(rows)]
                except D.DriverError:
                    raise
                except Exception as ex:  # noqa: BLE001
                    t["exc"] = type(ex).__name__
                traces.append(t)
        path = f"{a.out}_{a.what}_n{n}.json"
        D.dump(path, {"traces": traces})
        files.append({"n": n, "path": path, "traces": len(traces), "events": len(traces),
                      "sample": {k: traces[0][k] for k in ("kind", "comp", "gap", "k0", "k", "p", "hid", "seqs", "max_steps", "actions", "seq")} if traces else {}})
    D.finish({"files": files, "events": sum(f["events"] for f in files)})


if __name__ == "__main__":
    main()
