"""Driver for C20: fault enumeration inside save_json.

A warmed parent forks one child per (crash point, crash kind).  In the child every file operation on paths inside the results
directory is numbered (open for writing, write, flush, close, rename/replace, unlink, fsync; both the io-level and the os-level entry
points are wrapped) and at operation k the child either dies (os._exit: unflushed user-space buffers are lost) or is interrupted by
a KeyboardInterrupt (which unwinds through the code's `with`).  The parent then reads the bytes of data.json and classifies them.
One uninterrupted run records the PROGRAM (sequence of file operations) for the FS model.
"""
from __future__ import annotations

import argparse
import builtins
import io
import json
import os
import random
import shutil
import sys
from argparse import Namespace
from pathlib import Path

import numpy as np

import drvlib as D
from incomplete_cooperative.run.save import Output, save, save_json


class Proxy:
    """File-object proxy that numbers write/flush/close."""

    def __init__(self, f, path, inj):
        self._f, self._path, self._inj = f, path, inj

    def write(self, s):
        self._inj.tick("write", self._path)
        return self._f.write(s)

    def writelines(self, lines):
        for ln in lines:
            self.write(ln)

    def flush(self):
        self._inj.tick("flush", self._path)
        return self._f.flush()

    def close(self):
        if not self._f.closed:
            self._inj.tick("close", self._path)
        return self._f.close()

    def __enter__(self):
        return self

    def __exit__(self, *exc):
        self.close()
        return False

    def __getattr__(self, name):
        return getattr(self._f, name)

    def __iter__(self):
        return iter(self._f)


class Injector:
    def __init__(self, root: Path, kill_at: int, kind: str):
        self.root = str(root.resolve())
        self.kill_at, self.kind = kill_at, kind
        self.n = 0
        self.log = []
        self.fdmap = {}
        self.armed = True

    def inside(self, p) -> bool:
        try:
            return str(Path(os.fspath(p)).resolve()).startswith(self.root)
        except TypeError:
            return False

    def norm(self, p) -> str:
        name = Path(os.fspath(p)).name
        return "data" if name == "data.json" else "tmp:" + name if not name.startswith("tmp") else "tmp"

    def tick(self, op, path, dst=""):
        if not self.armed:
            return
        self.n += 1
        self.log.append({"op": op, "path": self.norm(path), "dst": self.norm(dst) if dst else ""})
        if self.n == self.kill_at:
            if self.kind == "die":
                os._exit(137)
            self.armed = False          # the exception handler's own clean-up is not interrupted a second time
            raise KeyboardInterrupt("injected interruption")

    def install(self):
        inj = self
        real_open = io.open
        real_os_open, real_replace, real_rename, real_unlink, real_fsync = os.open, os.replace, os.rename, os.unlink, os.fsync
        real_remove = os.remove

        def my_open(file, mode="r", *a, **kw):
            if isinstance(file, int):
                if file in inj.fdmap and any(c in mode for c in "wax+"):
                    return Proxy(real_open(file, mode, *a, **kw), inj.fdmap[file], inj)
                return real_open(file, mode, *a, **kw)
            if inj.inside(file) and any(c in mode for c in "wax+"):
                op = "open_trunc" if "w" in mode else "open_excl" if "x" in mode else "open_append" if "a" in mode else "open_keep"
                inj.tick(op, file)
                return Proxy(real_open(file, mode, *a, **kw), file, inj)
            return real_open(file, mode, *a, **kw)

        def my_os_open(path, flags, *a, **kw):
            if inj.inside(path) and flags & (os.O_WRONLY | os.O_RDWR):
                op = ("open_excl" if flags & os.O_EXCL else "open_trunc" if flags & os.O_TRUNC else
                      "open_append" if flags & os.O_APPEND else "open_keep")     # open_keep: existing content stays, writing starts at offset 0
                inj.tick(op, path)
                fd = real_os_open(path, flags, *a, **kw)
                inj.fdmap[fd] = path
                return fd
            return real_os_open(path, flags, *a, **kw)

        def my_replace(src, dst, *a, **kw):
            if inj.inside(src) or inj.inside(dst):
                inj.tick("rename", src, dst)
            return real_replace(src, dst, *a, **kw)

        def my_rename(src, dst, *a, **kw):
            if inj.inside(src) or inj.inside(dst):
                inj.tick("rename", src, dst)
            return real_rename(src, dst, *a, **kw)

        def my_unlink(p, *a, **kw):
            if inj.inside(p):
                inj.tick("unlink", p)
            return real_unlink(p, *a, **kw)

        def my_remove(p, *a, **kw):
            if inj.inside(p):
                inj.tick("unlink", p)
            return real_remove(p, *a, **kw)

        def my_fsync(fd):
            if fd in inj.fdmap:
                inj.tick("fsync", inj.fdmap[fd])
            return real_fsync(fd)

        builtins.open = io.open = my_open
        os.open, os.replace, os.rename, os.unlink, os.remove, os.fsync = my_os_open, my_replace, my_rename, my_unlink, my_remove, my_fsync
        shutil.os = os


def make_output(rng, rows, cols, tag, nan_ok=True):
    data = np.array([[rng.random() * 10 for _ in range(cols)] for _ in range(rows + 1)])
    actions = np.array([[float(rng.randrange(3, 30)) for _ in range(cols)] for _ in range(rows)])
    if nan_ok and rng.random() < 0.5:      # (the plot savers of save() cannot draw a run without any revealed coalition)
        actions[-1, -1] = np.nan
    return Output(data, actions, Namespace(func=print, tag=tag, seed=rng.randrange(1000), model_dir=Path("/somewhere")))


def classify(path: Path, old_bytes, expected_new: dict, old_names: list[str]):
    if not path.exists():
        return {"cls": "old" if old_bytes is None else "other", "parses": 1 if old_bytes is None else 0, "preserved": int(old_bytes is None)}
    b = path.read_bytes()
    if old_bytes is not None and b == old_bytes:
        return {"cls": "old", "parses": 1, "preserved": 1}
    try:
        got = json.loads(b.decode())
    except Exception:  # noqa: BLE001
        return {"cls": "other", "parses": 0, "preserved": 0}
    preserved = int(all(n in got and json.dumps(got[n], sort_keys=True) == json.dumps(expected_new[n], sort_keys=True) for n in old_names))
    same = json.dumps(got, sort_keys=True) == json.dumps(expected_new, sort_keys=True)
    return {"cls": "new" if same else "other", "parses": 1, "preserved": preserved}


def run_child(root: Path, kill_at: int, kind: str, name: str, out: Output, logfile: Path | None, via_save: bool = False):
    pid = os.fork()
    if pid == 0:
        code = 0
        try:
            inj = Injector(root, kill_at, kind)
            inj.install()
            try:
                if via_save:
                    save(root, name, out)              # the public entry point: directory, plots, data.json, coalition charts
                else:
                    save_json(root / "data.json", name, out)
            except KeyboardInterrupt:
                code = 3
            except Exception:  # noqa: BLE001
                code = 4
            if logfile is not None:
                inj.armed = False
                with io.FileIO(str(logfile), "w") as f:
                    f.write(json.dumps(inj.log).encode())
        finally:
            os._exit(code)
    _, status = os.waitpid(pid, 0)
    return os.waitstatus_to_exitcode(status)


def main():
    ap = argparse.ArgumentParser()
    ap.add_argument("--out", required=True)
    ap.add_argument("--seed", type=int, default=0)
    ap.add_argument("--histories", default="0,1,3")
    ap.add_argument("--sizes", default="1x1,4x3")
    ap.add_argument("--repeat-name", type=int, default=1)
    a = ap.parse_args()
    rng = random.Random(a.seed * 613 + 9)
    base = Path(a.out + "_dirs")
    traces = []
    tid = 0
    total_runs = 0
    for h in [int(x) for x in a.histories.split(",")]:
        for size in a.sizes.split(","):
            rows, cols = [int(x) for x in size.split("x")]
            for repeat in ([0, 1] if (a.repeat_name and h > 0) else [0]):
                tid += 1
                root = base / f"h{h}_{size}_{repeat}"
                shutil.rmtree(root, ignore_errors=True)
                root.mkdir(parents=True)
                old_names = [f"run{j}" for j in range(h)]
                for j, nm in enumerate(old_names):
                    save_json(root / "data.json", nm, make_output(rng, 2 + j, 2, nm))
                old_bytes = (root / "data.json").read_bytes() if h > 0 else None
                new_name = old_names[0] if repeat else "newrun"
                out = make_output(rng, rows, cols, new_name)
                follow_out = make_output(rng, 1, 1, "followup", nan_ok=False)
                # expected content after a complete save (computed on a scratch copy by the real code, uninterrupted)
                scratch = base / "scratch"
                shutil.rmtree(scratch, ignore_errors=True)
                scratch.mkdir(parents=True)
                if old_bytes is not None:
                    (scratch / "data.json").write_bytes(old_bytes)
                logf = base / "ops.json"
                rc = run_child(scratch, -1, "none", new_name, out, logf)
                program = json.loads(logf.read_text()) if logf.exists() else []
                expected_new = json.loads((scratch / "data.json").read_text()) if (scratch / "data.json").exists() else {}
                events = []
                nops = len(program)
                for kind in ("die", "raise"):
                    for k in range(1, nops + 2):
                        for p in root.iterdir():
                            if p.is_dir():
                                shutil.rmtree(p, ignore_errors=True)
                            elif p.name != "data.json":
                                p.unlink()
                        if old_bytes is None:
                            (root / "data.json").unlink(missing_ok=True)
                        else:
                            (root / "data.json").write_bytes(old_bytes)
                        rc = run_child(root, k, kind, new_name, out, None)
                        total_runs += 1
                        ev = {"k": k, "kind": kind, "rc": rc, "op": program[k - 1]["op"] if k <= nops else "none"}
                        ev.update(classify(root / "data.json", old_bytes, expected_new, old_names))
                        ev.update({"follow": -1, "follow_parses": -1, "follow_preserved": -1})
                        # a normal, smaller save AFTER the interrupted one (whatever the interrupted one left behind stays in place)
                        # through the public save() -- which may look at what an interrupted save left behind -- whenever a leftover
                        # file ends like a complete document, and for a sample of the other points (seed C20-f)
                        left = [p for p in root.iterdir() if p.is_file() and p.name != "data.json"]
                        looks_done = any(p.read_bytes().rstrip()[-1:] in (b"}", b"]") for p in left)
                        if ev["cls"] in ("old", "new") and (nops <= 60 or k % 5 == 1 or k >= nops - 3 or looks_done):
                            before = json.loads((root / "data.json").read_text()) if (root / "data.json").exists() else {}
                            via = looks_done or k % 9 == 4
                            rc2 = run_child(root, -1, "none", "followup", follow_out, None, via_save=via)
                            try:
                                got = json.loads((root / "data.json").read_text())
                                ev["follow_parses"] = 1
                                ev["follow_preserved"] = int(all(nm in got and json.dumps(got[nm], sort_keys=True) == json.dumps(before[nm], sort_keys=True) for nm in before))
                                ev["follow"] = int("followup" in got and rc2 == 0)
                            except Exception:  # noqa: BLE001
                                ev["follow_parses"], ev["follow_preserved"], ev["follow"] = 0, 0, 0
                            total_runs += 1
                        events.append(ev)
                traces.append({"tid": tid, "had_old": int(h > 0), "earlier_runs": h, "size": size, "repeat_name": repeat, "nops": nops,
                               "program": program, "complete_rc": rc, "events": events})
    shutil.rmtree(base, ignore_errors=True)
    path = a.out + "_crash.json"
    D.dump(path, {"traces": traces})
    D.finish({"files": [{"n": 1, "path": path, "traces": len(traces), "events": sum(len(t["events"]) for t in traces),
                         "sample": {"program": [[o["op"], o["path"]] for o in traces[-1]["program"]][:8] + ["..."] + [[o["op"], o["path"], o["dst"]] for o in traces[-1]["program"]][-3:],
                                    "nops": traces[-1]["nops"], "events": traces[-1]["events"][:3]}}],
              "events": total_runs})


if __name__ == "__main__":
    main()
