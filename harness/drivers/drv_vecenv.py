"""Driver for the training-time vector environments (beyond the listed properties, X03): ModelInstance.env_generator() with the sequential
(DummyVecEnv) and the parallel (SubprocVecEnv) class; the hidden game of every sub-environment is located in the seed's stream of games."""
from __future__ import annotations

import argparse
import random
import warnings

import numpy as np

import drvlib as D
from incomplete_cooperative.generators import GENERATORS
from incomplete_cooperative.run.model import ModelInstance

warnings.filterwarnings("ignore")


def one_trace(tid, n, kind, envs, gen, seed, resets):
    t = {"tid": tid, "n": n, "kind": kind, "envs": envs, "generator": gen, "seed": seed, "exc": "", "pos": []}
    rng = np.random.default_rng(seed)
    stream = [tuple(float(x).hex() for x in GENERATORS[gen](n, rng).get_values()) for _ in range(2 * envs + (resets + 1) * envs + 4)]
    where = {g: k + 1 for k, g in reversed(list(enumerate(stream)))}            # first position (1-based) of every game of the stream
    vec = None
    try:
        inst = ModelInstance(number_of_players=n, game_generator=gen, environment=kind, parallel_environments=envs, seed=seed)
        vec = inst.env_generator()

        def positions():
            return [where.get(tuple(float(x).hex() for x in g.get_values()), -1) for g in vec.get_attr("full_game")]
        t["pos"].append(positions())
        for _ in range(resets):
            vec.reset()
            t["pos"].append(positions())
    except D.DriverError:
        raise
    except Exception as ex:  # noqa: BLE001
        t["exc"] = type(ex).__name__
    finally:
        if vec is not None:
            try:
                vec.close()
            except Exception:  # noqa: BLE001
                pass
    return t


def main():
    ap = argparse.ArgumentParser()
    ap.add_argument("--out", required=True)
    ap.add_argument("--seed", type=int, default=0)
    ap.add_argument("--count", type=int, default=3)
    a = ap.parse_args()
    rng = random.Random(a.seed * 7919 + 29)
    traces, tid = [], 0
    for kind in ("sequential", "parallel"):
        for _ in range(a.count):
            tid += 1
            traces.append(one_trace(tid, rng.choice([3, 4]), kind, rng.randint(1, 3), rng.choice(["noisy_factory", "xos", "noisy_factory_square"]),
                                    a.seed * 100 + tid, rng.randint(1, 3)))
    path = f"{a.out}_vecenv.json"
    D.dump(path, {"traces": traces})
    D.finish({"files": [{"n": 1, "path": path, "traces": len(traces), "events": len(traces), "sample": traces[-1]}], "events": len(traces)})


if __name__ == "__main__":
    main()
