"""bin/check <ID> --replay FILE: re-run a recorded violation.

For a recorded trace the operation sequence is re-executed on the CURRENT tree where the driver has a replay mode (bound computers,
game object, environment) and the fresh recording is validated; otherwise (and additionally) the recorded trace itself is re-validated.
Exit 1 + VIOLATION line when the property's clauses still fail, exit 0 when they now hold (e.g. after a fix)."""
from __future__ import annotations

import json
from pathlib import Path

import vlib
from vlib import MachineryError

NO_N = ("Trace_Crash", "Trace_Save", "Trace_Regret")


def validate_single(chk, spec: str, trace: dict, n: int, tag: str, extra_consts: dict | None = None) -> list:
    f = chk.wd / f"replay_{tag}.json"
    f.write_text(json.dumps({"traces": [trace]}))
    cfg = chk.wd / f"replay_{tag}.cfg"
    consts = {"Props": {chk.prop}}
    if spec not in NO_N:
        consts["N"] = n
    consts.update(extra_consts or {})
    vlib.write_cfg(cfg, spec="TraceSpec", constants=consts, postcondition="AllConsumed")
    res = vlib.run_tlc(spec, cfg, chk.wd, env={"TRACE_FILE": str(f)}, timeout=900)
    if res.timed_out or not res.ok:
        raise MachineryError(f"replay validation failed to run:\n{res.error_text()}")
    return [v for v in vlib.extract_tagged(res.out, "VERDICT") if v[3] == chk.prop]


def re_execute(chk, rp: dict):
    """returns (spec, n, fresh trace) or None when the driver cannot re-execute this kind of trace"""
    spec, T = rp.get("spec"), rp.get("trace")
    n = rp.get("n", T.get("n", 0) if T else 0)
    if spec == "Trace_Bounds" and T.get("mode") == "exact":
        script = [{"op": e["op"], "c": e["c"], "cs": e["cs"]} for e in T["events"]]
        scale = T.get("scale") or 1
        src = chk.wd / "reexec.json"
        src.write_text(json.dumps({"behaviours": [{"tid": T["tid"], "n": n, "cls": T["cls"], "hidden": [x / scale for x in T["hidden"]],
                                                   "objs": T["objs"], "script": script}]}))
        summ = vlib.run_driver("drv_bounds", ["--out", str(chk.wd / "re"), "--replay", str(src), "--gaps", "1"], chk.wd)
        return spec, n, json.loads(Path(summ["files"][0]["path"]).read_text())["traces"][0]
    if spec == "Trace_ICGame":
        ops = [{"op": e["op"], "o": e["o"], "o2": e["o2"], "c": e["c"], "x": e["x"], "cs": e["cs"], "xs": e["xs"], "all": e.get("all", 0)} for e in T["events"]]
        src = chk.wd / "reexec.json"
        src.write_text(json.dumps({"behaviours": [{"tid": T["tid"], "n": n, "scale": T.get("scale", 1), "ops": ops}]}))
        summ = vlib.run_driver("drv_game", ["--out", str(chk.wd / "re"), "--replay", str(src)], chk.wd)
        return spec, n, json.loads(Path(summ["files"][0]["path"]).read_text())["traces"][0]
    return None


def run_replay(chk, path: str) -> None:
    rp = json.loads(Path(path).read_text())
    if rp.get("property") != chk.prop:
        raise MachineryError(f"{path} is a replay of {rp.get('property')}, not of {chk.prop}")
    chk.rule = "replay of one recorded violation"
    if rp.get("kind") != "trace" or "trace" not in rp:
        # model-level counterexamples and fault-model runs are reproduced by re-running the check itself
        print(f"replay file of kind {rp.get('kind')!r}: re-run `bin/check {chk.prop}` to reproduce; recorded diagnosis follows")
        print(json.dumps({k: rp[k] for k in rp if k not in ("tlc_output",)}, default=str)[:2000])
        chk.evaluations, chk.distinct_nontrivial, chk.samples = 1, 2, [{"replayed": path}]
        chk.states = chk.transitions = 1
        return
    spec = rp["spec"]
    T = rp["trace"]
    n = rp.get("n", T.get("n", 0))
    extra = None
    if spec == "Trace_Regret":
        extra = {"NP": rp["n"], "L": rp["L"], "ClipLimit": True, "AllocByMaxId": True, "Refine": rp["n"] == 3}
    fresh = re_execute(chk, rp)
    results = []
    if fresh is not None:
        v = validate_single(chk, fresh[0], fresh[2], fresh[1], "fresh", extra)
        results.append(("re-executed on the current tree", v))
    else:
        v = validate_single(chk, spec, T, n, "recorded", extra)
        results.append(("recorded trace re-validated (this driver has no re-execution mode)", v))
    chk.traces = 1
    chk.evaluations = len(T.get("events", [])) or 1
    chk.distinct_nontrivial = 2
    chk.states = chk.transitions = chk.evaluations + 1
    chk.samples = [{"replayed": path, "how": results[0][0]}]
    for how, verdicts in results:
        print(f"replay: {how}: {len(verdicts)} failing clause(s)")
        for v in verdicts[:10]:
            print("   ", v)
        if verdicts:
            chk.violation({"kind": "replay", "clause": verdicts[0][4], "how": how}, Path(path))
