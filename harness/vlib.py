"""Orchestrator library: running TLC, drivers, parsing verdicts, evidence, known findings.

Standard library only.  Everything a check needs at run time lives under /verif; scratch space is
$VERIF_TMP (default /verif/.work) and is wiped per check.
"""
from __future__ import annotations

import json
import os
import re
import shutil
import subprocess
import sys
import time
from pathlib import Path

VERIF = Path(__file__).resolve().parent.parent
SPEC = VERIF / "spec"
HARNESS = VERIF / "harness"
REPO = Path(os.environ.get("VERIF_REPO", "/repo"))
PY = os.environ.get("VERIF_PY", "/venv/bin/python")
WORK_ROOT = Path(os.environ.get("VERIF_TMP", str(VERIF / ".work")))
# runs against a scratch copy (mutant testing) must never overwrite the committed evidence / replays
ALT = str(REPO) != "/repo"
EVID_DIR = (WORK_ROOT / "alt_evidence") if ALT else (VERIF / "evidence")
REPLAY_DIR = (WORK_ROOT / "alt_replays") if ALT else (VERIF / "replays")
NCPU = int(os.environ.get("VERIF_WORKERS", str(os.cpu_count() or 4)))
TLA_CP = "/opt/veriftools/tla/tla2tools.jar:/opt/veriftools/tla/CommunityModules-deps.jar"


def default_heap() -> str:
    """half of the machine's memory, at most 12 GB, at least 1 GB"""
    try:
        kb = int(next(l for l in open("/proc/meminfo") if l.startswith("MemTotal")).split()[1])
        gb = max(1, min(12, kb // (2 * 1024 * 1024)))
    except Exception:  # noqa: BLE001
        gb = 4
    return f"{gb}g"


class MachineryError(Exception):
    """The machinery (not the code under test) failed: exit status 2."""


def workdir(name: str) -> Path:
    d = WORK_ROOT / name
    if d.exists():
        shutil.rmtree(d, ignore_errors=True)
    d.mkdir(parents=True, exist_ok=True)
    return d


# ----------------------------------------------------------------------------------------------
# TLC
# ----------------------------------------------------------------------------------------------

_RE_GEN = re.compile(r"^(\d+) states generated, (\d+) distinct states found, (\d+) states left on queue", re.M)
_RE_DEPTH = re.compile(r"The depth of the complete state graph search is (\d+)")
_RE_INV = re.compile(r"Error: Invariant (\S+) is violated")
_RE_ACTPROP = re.compile(r"Error: Action property (\S+) is violated")
_RE_COV = re.compile(r"^<(\w+) line (\d+), col (\d+) to line (\d+), col (\d+) of module (\w+)>: (\d+):(\d+)", re.M)


def split_toplevel(text: str, start: int) -> tuple[str, int]:
    """Return the balanced <<...>> value beginning at text[start] and the index after it."""
    assert text.startswith("<<", start)
    depth = 0
    i = start
    in_str = False
    while i < len(text):
        ch = text[i]
        if in_str:
            if ch == "\\":
                i += 2
                continue
            if ch == '"':
                in_str = False
        else:
            if ch == '"':
                in_str = True
            elif text.startswith("<<", i):
                depth += 1
                i += 2
                continue
            elif text.startswith(">>", i):
                depth -= 1
                i += 2
                if depth == 0:
                    return text[start:i], i
                continue
        i += 1
    raise MachineryError("unbalanced TLC tuple in output")


def parse_tla_value(s: str):
    """Parse the subset of TLA+ values TLC prints: ints, strings, booleans, <<>>, {}, [a |-> v], (k :> v @@ ...)."""
    pos = 0
    n = len(s)

    def ws():
        nonlocal pos
        while pos < n and s[pos] in " \t\r\n":
            pos += 1

    def val():
        nonlocal pos
        ws()
        if s.startswith("<<", pos):
            pos += 2
            out = []
            ws()
            if s.startswith(">>", pos):
                pos += 2
                return out
            while True:
                out.append(val())
                ws()
                if s.startswith(">>", pos):
                    pos += 2
                    return out
                if s[pos] != ",":
                    raise MachineryError(f"TLA parse: expected , at {pos}: {s[pos:pos+30]!r}")
                pos += 1
        if s[pos] == "{":
            pos += 1
            out = []
            ws()
            if s[pos] == "}":
                pos += 1
                return {"__set__": out}
            while True:
                out.append(val())
                ws()
                if s[pos] == "}":
                    pos += 1
                    return {"__set__": out}
                if s[pos] != ",":
                    raise MachineryError(f"TLA parse: expected , in set at {pos}")
                pos += 1
        if s[pos] == "[":
            pos += 1
            out = {}
            ws()
            if s[pos] == "]":
                pos += 1
                return out
            while True:
                ws()
                m = re.compile(r"[A-Za-z_0-9]+").match(s, pos)
                if not m:
                    raise MachineryError(f"TLA parse: field name at {pos}")
                key = m.group(0)
                pos = m.end()
                ws()
                if not s.startswith("|->", pos):
                    raise MachineryError(f"TLA parse: |-> at {pos}")
                pos += 3
                out[key] = val()
                ws()
                if s[pos] == "]":
                    pos += 1
                    return out
                if s[pos] != ",":
                    raise MachineryError(f"TLA parse: expected , in record at {pos}")
                pos += 1
        if s[pos] == "(":
            pos += 1
            out = {}
            while True:
                k = val()
                ws()
                if not s.startswith(":>", pos):
                    raise MachineryError(f"TLA parse: :> at {pos}")
                pos += 2
                v = val()
                out[k if not isinstance(k, list) else tuple(k)] = v
                ws()
                if s.startswith("@@", pos):
                    pos += 2
                    continue
                if s[pos] == ")":
                    pos += 1
                    return {"__fn__": out}
                raise MachineryError(f"TLA parse: @@ or ) at {pos}")
        if s[pos] == '"':
            j = pos + 1
            buf = []
            while s[j] != '"':
                if s[j] == "\\":
                    j += 1
                buf.append(s[j])
                j += 1
            pos = j + 1
            return "".join(buf)
        m = re.compile(r"-?\d+").match(s, pos)
        if m:
            pos = m.end()
            return int(m.group(0))
        m = re.compile(r"TRUE|FALSE").match(s, pos)
        if m:
            pos = m.end()
            return m.group(0) == "TRUE"
        m = re.compile(r"[A-Za-z_][A-Za-z_0-9]*").match(s, pos)
        if m:  # model value
            pos = m.end()
            return m.group(0)
        raise MachineryError(f"TLA parse: unexpected at {pos}: {s[pos:pos+40]!r}")

    v = val()
    return v


def extract_tagged(output: str, tag: str) -> list:
    """All tuples <<"TAG", ...>> that TLC printed (PrintT), parsed."""
    # TLC prints a short tuple on one line (`<<"TAG", 1, ...>>`) and wraps a long one over several lines with a blank after the
    # opening bracket (`<< "TAG",` newline ...): both forms are recognised
    res = []
    pat = re.compile(r'<<\s*"' + re.escape(tag) + '"')
    i = 0
    while True:
        m = pat.search(output, i)
        if m is None:
            return res
        txt, i = split_toplevel(output, m.start())
        res.append(parse_tla_value(txt))


_RE_STATE = re.compile(r"^STATE_(\d+) ==\s*$", re.M)
_RE_CONJ = re.compile(r"^/\\ (\w+) = ", re.M)


def parse_behaviour_file(path: Path) -> list[dict]:
    """Parse a file written by `tlc -simulate file=...` (or a TLC counterexample in the same layout):
    list of states, each a dict variable -> parsed value."""
    text = Path(path).read_text()
    states = []
    marks = list(_RE_STATE.finditer(text))
    for i, m in enumerate(marks):
        end = marks[i + 1].start() if i + 1 < len(marks) else len(text)
        block = text[m.end():end]
        # cut trailing comment / module end lines
        block = re.split(r"^\\\* <|^={4,}", block, flags=re.M)[0]
        conj = list(_RE_CONJ.finditer(block))
        st = {}
        for j, c in enumerate(conj):
            vend = conj[j + 1].start() if j + 1 < len(conj) else len(block)
            st[c.group(1)] = parse_tla_value(block[c.end():vend].strip())
        states.append(st)
    return states


def simulate(spec: str, cfg: Path, wd: Path, *, num: int, depth: int, seed: int, tag: str = "sim", timeout: int = 600) -> list[list[dict]]:
    """Generate `num` behaviours of the specification with TLC's simulator and parse them."""
    pref = wd / f"{tag}_beh"
    res = run_tlc(spec, cfg, wd, workers=1, timeout=timeout, simulate=f"file={pref},num={num}",
                  extra=["-depth", str(depth), "-seed", str(seed)])
    if not res.ok:
        raise MachineryError(f"TLC simulation failed ({spec}, {cfg}):\n{res.error_text()}")
    files = sorted(wd.glob(f"{tag}_beh_*"))
    if not files:
        raise MachineryError(f"TLC simulation wrote no behaviour files for {spec}")
    out = [parse_behaviour_file(f) for f in files]
    for f in files:
        f.unlink()
    return out


class TLCResult:
    def __init__(self, rc: int, out: str, wall: float, cmd: list[str]):
        self.rc = rc
        self.out = out
        self.wall = wall
        self.cmd = cmd
        m = None
        for m in _RE_GEN.finditer(out):
            pass
        self.generated = int(m.group(1)) if m else 0
        self.distinct = int(m.group(2)) if m else 0
        self.left = int(m.group(3)) if m else -1
        d = _RE_DEPTH.search(out)
        self.depth = int(d.group(1)) if d else 0
        self.violated = _RE_INV.findall(out) + _RE_ACTPROP.findall(out)
        self.completed = "Model checking completed" in out or "Finished in" in out and not self.violated and rc == 0
        self.deadlock = "Deadlock reached" in out
        self.timed_out = rc == 124

    @property
    def ok(self) -> bool:
        return self.rc == 0 and not self.violated and "Error:" not in self.out

    def error_text(self) -> str:
        i = self.out.find("Error:")
        return self.out[i:i + 3000] if i >= 0 else self.out[-3000:]

    def coverage(self) -> dict[str, int]:
        """Per-action count of states found (needs -coverage)."""
        cov: dict[str, int] = {}
        for m in _RE_COV.finditer(self.out):
            cov[m.group(1)] = max(cov.get(m.group(1), 0), int(m.group(7)))
        return cov


def run_tlc(spec: str, cfg: Path | str, wd: Path, *, workers: int | None = None, timeout: int = 900,
            env: dict | None = None, extra: list[str] | None = None, simulate: str | None = None,
            coverage: bool = False, java_opts: list[str] | None = None, heap: str | None = None) -> TLCResult:
    """Run TLC on /verif/spec/<spec>.tla with the given cfg file.  Raises MachineryError on tool failure
    that is neither success nor a property violation."""
    meta = wd / ("meta_" + Path(str(cfg)).stem)
    meta.mkdir(parents=True, exist_ok=True)
    workers = workers or NCPU
    heap = heap or default_heap()
    cmd = ["timeout", str(timeout), "java", "-XX:+UseParallelGC", f"-Xmx{heap}", "-Xss256m"] + (java_opts or []) + [
        "-cp", TLA_CP, "tlc2.TLC", "-workers", str(workers), "-metadir", str(meta), "-noGenerateSpecTE",
        "-config", str(cfg)]
    if coverage:
        cmd += ["-coverage", "1"]
    if simulate:
        cmd += ["-simulate", simulate]
    cmd += (extra or [])
    cmd += [str(SPEC / (spec + ".tla"))]
    e = dict(os.environ)
    e.update(env or {})
    t0 = time.time()
    p = subprocess.run(cmd, cwd=str(SPEC), env=e, stdout=subprocess.PIPE, stderr=subprocess.STDOUT, text=True)
    res = TLCResult(p.returncode, p.stdout, time.time() - t0, cmd)
    (wd / (Path(str(cfg)).stem + ".tlc.out")).write_text(p.stdout)
    shutil.rmtree(meta, ignore_errors=True)
    return res


def require_clean(res: TLCResult, what: str) -> None:
    """A TLC run that must complete without any error (used where a failure can only be the machinery's)."""
    if res.timed_out:
        raise MachineryError(f"TLC timed out: {what}")
    if not res.ok:
        raise MachineryError(f"TLC failed: {what}\n{res.error_text()}")


def write_cfg(path: Path, *, spec: str = "Spec", constants: dict | None = None, invariants: list[str] | None = None,
              properties: list[str] | None = None, constraint: str | None = None, view: str | None = None,
              postcondition: str | None = None, deadlock: bool = False, action_constraint: str | None = None,
              init_next: tuple[str, str] | None = None) -> Path:
    lines = []
    if init_next:
        lines += [f"INIT {init_next[0]}", f"NEXT {init_next[1]}"]
    else:
        lines.append(f"SPECIFICATION {spec}")
    if constants:
        lines.append("CONSTANTS")
        for k, v in constants.items():
            lines.append(f"  {k} {v}" if str(v).startswith("<-") else f"  {k} = {tla_lit(v)}")
    for i in invariants or []:
        lines.append(f"INVARIANT {i}")
    for i in properties or []:
        lines.append(f"PROPERTY {i}")
    if constraint:
        lines.append(f"CONSTRAINT {constraint}")
    if action_constraint:
        lines.append(f"ACTION_CONSTRAINT {action_constraint}")
    if view:
        lines.append(f"VIEW {view}")
    if postcondition:
        lines.append(f"POSTCONDITION {postcondition}")
    lines.append(f"CHECK_DEADLOCK {'TRUE' if deadlock else 'FALSE'}")
    path.write_text("\n".join(lines) + "\n")
    return path


def tla_lit(v) -> str:
    if isinstance(v, bool):
        return "TRUE" if v else "FALSE"
    if isinstance(v, int):
        if v < 0:
            raise MachineryError("negative literal in cfg")
        return str(v)
    if isinstance(v, str):
        return '"' + v + '"'
    if isinstance(v, (set, frozenset)):
        return "{" + ", ".join(sorted(tla_lit(x) for x in v)) + "}"
    if isinstance(v, (list, tuple)):
        return "<<" + ", ".join(tla_lit(x) for x in v) + ">>"
    raise MachineryError(f"cannot render {v!r} in cfg")


# ----------------------------------------------------------------------------------------------
# drivers (run the code under test in a subprocess of /venv/bin/python with PYTHONPATH=/repo)
# ----------------------------------------------------------------------------------------------

def driver_env(extra: dict | None = None) -> dict:
    e = dict(os.environ)
    e["PYTHONPATH"] = f"{REPO}:{HARNESS}"
    e["PYTHONHASHSEED"] = "0"
    e["PYTHONDONTWRITEBYTECODE"] = "1"
    e["MPLBACKEND"] = "Agg"
    e["OMP_NUM_THREADS"] = "1"
    e["OPENBLAS_NUM_THREADS"] = "1"
    e["MKL_NUM_THREADS"] = "1"
    e.update(extra or {})
    return e


def run_driver(name: str, args: list[str], wd: Path, timeout: int = 1500, env: dict | None = None) -> dict:
    """Run harness/drivers/<name>.py; it must print one JSON object (its summary) on its last stdout line."""
    cmd = ["timeout", str(timeout), PY, str(HARNESS / "drivers" / (name + ".py"))] + args
    if os.environ.get("VERIF_PYCOV"):       # development aid (bin/pycov): line coverage of the repository under the drivers
        cmd = cmd[:3] + ["-m", "coverage", "run", "--rcfile", os.environ["VERIF_PYCOV"] + "/coveragerc"] + cmd[3:]
    t0 = time.time()
    p = subprocess.run(cmd, cwd=str(wd), env=driver_env(env), stdout=subprocess.PIPE, stderr=subprocess.PIPE, text=True)
    (wd / (name + ".driver.err")).write_text(p.stderr)
    if p.returncode != 0:
        raise MachineryError(f"driver {name} failed rc={p.returncode}\n{p.stderr[-3000:]}")
    last = p.stdout.strip().splitlines()[-1] if p.stdout.strip() else "{}"
    try:
        summary = json.loads(last)
    except Exception as ex:  # noqa
        raise MachineryError(f"driver {name}: bad summary line {last[:200]!r}") from ex
    summary["wall_s"] = time.time() - t0
    return summary


# ----------------------------------------------------------------------------------------------
# known findings
# ----------------------------------------------------------------------------------------------

def load_known_findings(prop: str) -> list[dict]:
    p = VERIF / "known_findings.json"
    if not p.exists():
        return []
    data = json.loads(p.read_text())
    return [f for f in data.get("findings", []) if f.get("property") == prop and f.get("status") == "open"]


def matches(finding: dict, violation: dict) -> bool:
    """A finding matches a violation when every key of finding['match'] equals the violation's value
    (lists in the matcher mean 'one of')."""
    for k, want in finding.get("match", {}).items():
        got = violation.get(k)
        if isinstance(want, list):
            if got not in want:
                return False
        elif got != want:
            return False
    return True


# ----------------------------------------------------------------------------------------------
# check context: collects violations, evidence, exit status
# ----------------------------------------------------------------------------------------------

class Check:
    def __init__(self, prop: str, tier: str, seed: int, level: str, keep_replays: bool = False):
        self.prop = prop
        self.tier = tier
        self.seed = seed
        self.level = level
        self.t0 = time.time()
        self.wd = workdir(prop + ("_alt%d" % os.getpid() if ALT else ""))
        self.violations: list[dict] = []
        self.known_hits: list[tuple[dict, dict]] = []
        self.states = 0
        self.transitions = 0
        self.traces = 0
        self.evaluations = 0
        self.distinct_nontrivial = 0
        self.samples: list = []
        self.mc_runs: list[dict] = []
        self.clause_counts: dict[str, int] = {}
        self.assumptions: list[str] = []
        self.notes: dict = {}
        self.rule = ""
        self.exhaustive = False
        self._known = load_known_findings(prop)
        self._n_replays = 0
        rd = REPLAY_DIR
        rd.mkdir(parents=True, exist_ok=True)
        self.replay_mode = False
        if not keep_replays:
            for old in rd.glob(f"{prop}-*.json"):
                old.unlink()

    # -- model checking ---------------------------------------------------------------------
    def model_check(self, spec: str, cfg_name: str, *, expect_violation: str | None = None, timeout: int = 900,
                    workers: int | None = None, coverage: bool = False, cfg_path: Path | None = None,
                    required_actions: list[str] | None = None, java_opts: list[str] | None = None,
                    extra: list[str] | None = None, env: dict | None = None) -> TLCResult:
        cfg = cfg_path or (SPEC / cfg_name)
        res = run_tlc(spec, cfg, self.wd, timeout=timeout, workers=workers, coverage=coverage or bool(required_actions),
                      java_opts=java_opts, extra=extra, env=env)
        entry = {"spec": spec, "cfg": Path(str(cfg)).name, "generated": res.generated, "distinct": res.distinct,
                 "depth": res.depth, "wall_s": round(res.wall, 1), "violated": res.violated}
        self.mc_runs.append(entry)
        if res.timed_out:
            raise MachineryError(f"TLC timed out on {cfg}")
        if expect_violation:
            if expect_violation not in res.violated:
                raise MachineryError(f"{cfg}: expected TLC to find {expect_violation} violated (model of a known defect), it did not\n"
                                     + res.error_text())
        else:
            if res.violated:
                # the specification itself admits a bad state: a design-level violation
                rp = self.write_replay({"kind": "model", "spec": spec, "cfg": Path(str(cfg)).name, "violated": res.violated,
                                        "tlc_output": res.error_text()})
                self.violation({"kind": "model", "clause": res.violated[0], "cfg": Path(str(cfg)).name}, rp)
            elif not res.ok:
                raise MachineryError(f"TLC error on {cfg}:\n{res.error_text()}")
        self.states += res.distinct
        self.transitions += res.generated
        if required_actions:
            cov = res.coverage()
            missing = [a for a in required_actions if cov.get(a, 0) == 0]
            entry["action_coverage"] = {a: cov.get(a, 0) for a in required_actions}
            if missing:
                raise MachineryError(f"{cfg}: vacuous run, actions never taken: {missing}")
        return res

    def apalache_inductive(self, module: str, inv: str, *, init: str = "Init", ind_init: str = "IndInit", nxt: str = "Next",
                           timeout: int = 600, mutate: tuple[str, str, str] | None = None) -> None:
        r"""Unbounded argument with Apalache: base case init => inv (length 0) and step ind_init /\ nxt => inv' (length 1).
        `mutate` = (file, old, new): the step must FAIL when `old` is replaced by `new` in a scratch copy of the spec directory
        (the argument is not vacuous)."""
        import shutil as _sh
        exe = _sh.which("apalache-mc")
        if exe is None:
            raise MachineryError("apalache-mc not found")

        def one(specdir: Path, init_op: str, length: int, tag: str) -> tuple[bool, str, float]:
            out = self.wd / f"apa_{tag}"
            t0 = time.time()
            pr = subprocess.run([exe, "check", f"--init={init_op}", f"--next={nxt}", f"--inv={inv}", f"--length={length}",
                                 f"--out-dir={out}", f"{module}.tla"], cwd=specdir, capture_output=True, text=True, timeout=timeout)
            txt = pr.stdout + pr.stderr
            _sh.rmtree(out, ignore_errors=True)
            if "The outcome is: NoError" in txt:
                return True, txt, time.time() - t0
            if "The outcome is: Error" in txt and "invariant" in txt:
                return False, txt, time.time() - t0
            raise MachineryError(f"apalache failed on {module} ({tag}):\n{txt[-1500:]}")

        for init_op, length, tag in ((init, 0, "base"), (ind_init, 1, "step")):
            ok, txt, wall = one(SPEC, init_op, length, tag)
            self.mc_runs.append({"spec": module, "cfg": f"apalache --init={init_op} --next={nxt} --inv={inv} --length={length}", "generated": 0,
                                 "distinct": 0, "depth": length, "wall_s": round(wall, 1), "violated": [] if ok else [inv]})
            if not ok:
                rp = self.write_replay({"kind": "model", "spec": module, "cfg": f"apalache {tag}", "violated": [inv], "tlc_output": txt[-3000:]})
                self.violation({"kind": "model", "clause": inv, "cfg": f"apalache-{tag}"}, rp)
        if mutate:
            fname, old, newtxt = mutate
            d = self.wd / "apa_mutspec"
            _sh.rmtree(d, ignore_errors=True)
            _sh.copytree(SPEC, d, ignore=_sh.ignore_patterns("states", "*.bin"))
            src = (d / fname).read_text()
            if old not in src:
                raise MachineryError(f"mutation anchor not found in {fname}")
            (d / fname).write_text(src.replace(old, newtxt))
            ok, txt, wall = one(d, ind_init, 1, "mut")
            _sh.rmtree(d, ignore_errors=True)
            self.mc_runs.append({"spec": module, "cfg": f"apalache step on mutated {fname} (must fail)", "generated": 0, "distinct": 0, "depth": 1,
                                 "wall_s": round(wall, 1), "violated": [] if ok else [inv]})
            if ok:
                raise MachineryError(f"apalache: inductive step still passes on mutated {fname}: the argument is vacuous")

    # -- violations -----------------------------------------------------------------------
    MAX_REPLAYS = 8

    def write_replay(self, obj: dict) -> Path:
        d = REPLAY_DIR
        d.mkdir(parents=True, exist_ok=True)
        self._n_replays += 1
        p = d / f"{self.prop}-{self.seed}-{min(self._n_replays, self.MAX_REPLAYS)}.json"
        if self._n_replays > self.MAX_REPLAYS:   # keep the first few replay files, count the rest
            return p
        obj = dict(obj)
        obj["property"] = self.prop
        obj["replay_cmd"] = f"bin/check {self.prop} --replay {p}"
        p.write_text(json.dumps(obj, indent=1, default=str))
        return p

    def violation(self, record: dict, replay: Path | None = None) -> None:
        record = dict(record)
        record["property"] = self.prop
        for f in self._known:
            if matches(f, record):
                self.known_hits.append((f, record))
                return
        if replay is None:
            replay = self.write_replay({"kind": "record", "record": record})
        record["replay"] = str(replay)
        self.violations.append(record)

    def count(self, clause: str, k: int = 1) -> None:
        self.clause_counts[clause] = self.clause_counts.get(clause, 0) + k

    # -- finish ---------------------------------------------------------------------------
    def finish(self) -> int:
        wall = time.time() - self.t0
        cov: dict = {
            "evaluations": int(self.evaluations),
            "distinct_nontrivial": int(self.distinct_nontrivial),
            "rule": self.rule,
            "samples": self.samples[:6] if self.samples else [],
            "states": int(self.states),
            "transitions": int(self.transitions),
            "traces_validated_against_impl": int(self.traces),
            "exhaustive": bool(self.exhaustive),
            "model_checking_runs": self.mc_runs,
            "clause_evaluations": self.clause_counts,
        }
        cov.update(self.notes)
        ev = {
            "property_id": self.prop, "tier": self.tier, "seed": int(self.seed), "level": self.level,
            "coverage": cov, "assumptions": self.assumptions, "wall_s": round(wall, 2),
            "violations": len(self.violations),
            "known_findings_printed": sorted({f["id"] for f, _ in self.known_hits}),
        }
        problems = validate_evidence(ev)
        if problems:
            raise MachineryError("evidence would not validate: " + "; ".join(problems))
        if not self.replay_mode:
            EVID_DIR.mkdir(parents=True, exist_ok=True)
            (EVID_DIR / f"{self.prop}.json").write_text(json.dumps(ev, indent=1, default=str))
        seen = set()
        for f, rec in self.known_hits:
            if f["id"] in seen:
                continue
            seen.add(f["id"])
            n = sum(1 for g, _ in self.known_hits if g["id"] == f["id"])
            print(f"KNOWN-FINDING: property={self.prop} {f['id']}: {f['what']} ({n} occurrence(s) in this run)")
        for v in self.violations[:50]:
            print(f"VIOLATION property={self.prop} replay={v['replay']}")
            print("   " + json.dumps({k: v[k] for k in v if k not in ('replay',)}, default=str)[:600])
        if len(self.violations) > 50:
            print(f"   ... and {len(self.violations) - 50} more violations")
        if not os.environ.get("VERIF_KEEP"):          # development aid: keep the recorded traces for inspection
            shutil.rmtree(self.wd, ignore_errors=True)
        status = 1 if self.violations else 0
        print(f"[{self.prop}] tier={self.tier} seed={self.seed} states={self.states} transitions={self.transitions} "
              f"traces={self.traces} evaluations={self.evaluations} violations={len(self.violations)} "
              f"known={len(seen)} wall={wall:.1f}s -> exit {status}")
        return status


def validate_evidence(ev: dict) -> list[str]:
    """Minimal re-implementation of EVIDENCE.schema.json's rules (stdlib only)."""
    pr = []
    for k in ("property_id", "tier", "seed", "level", "coverage", "wall_s"):
        if k not in ev:
            pr.append(f"missing {k}")
    c = ev.get("coverage", {})
    lvl = ev.get("level")
    generic_ok = (c.get("evaluations", 0) >= 1 and c.get("distinct_nontrivial", 0) >= 2 and isinstance(c.get("rule"), str)
                  and isinstance(c.get("samples"), list) and len(c.get("samples")) >= 1)
    if lvl in ("exploration", "fault_enumeration"):
        if not generic_ok:
            pr.append("exploration-level evidence needs evaluations>=1, distinct_nontrivial>=2, rule, samples")
    elif lvl == "model_checking":
        if not (c.get("states", 0) >= 1 and c.get("transitions", 0) >= 1 and isinstance(c.get("samples"), list) and len(c["samples"]) >= 1
                and "traces_validated_against_impl" in c):
            pr.append("model_checking evidence needs states, transitions, traces_validated_against_impl, samples")
    return pr


def run_check(fn, prop: str, level: str) -> int:
    """Common main(): parse tier/seed, run, map exceptions to exit codes."""
    import argparse
    ap = argparse.ArgumentParser()
    ap.add_argument("--tier", default=os.environ.get("VERIF_TIER", "quick"), choices=["quick", "thorough"])
    ap.add_argument("--replay", default=None)
    ap.add_argument("--seed", type=int, default=int(os.environ.get("VERIF_SEED", "0") or 0))
    a = ap.parse_args(sys.argv[2:])
    chk = Check(prop, a.tier, a.seed, level, keep_replays=bool(a.replay))
    try:
        if a.replay:
            import replay
            replay.run_replay(chk, a.replay)
            chk.replay_mode = True
        else:
            fn(chk, a)
        return chk.finish()
    except MachineryError as ex:
        print(f"MACHINERY-FAILURE property={prop}: {ex}", file=sys.stderr)
        return 2
    except Exception:  # noqa: BLE001  -- a bug of the machinery is never reported as a violation
        import traceback
        print(f"MACHINERY-FAILURE property={prop}: unexpected exception in the harness", file=sys.stderr)
        traceback.print_exc()
        return 2
