"""Driver-side helpers (run under /venv/bin/python with PYTHONPATH=/repo:/verif/harness).

Numbers discipline (DESIGN §3):
  * exact mode  : every logged number x satisfies x*scale == round(x*scale) and |x*scale| < 2**30; logged as that int.
  * quant mode  : logged as round(x * grid) with grid = 2**16/scale_pow2; clauses allow a tolerance in grid units.
A failed exactness assertion is a machinery failure (DriverError), never a violation.
"""
from __future__ import annotations

import json
import math
import random
import sys
from fractions import Fraction
from itertools import combinations

import numpy as np

LIMIT = 2 ** 30


class DriverError(Exception):
    pass


class OutputError(DriverError):
    """A value PRODUCED BY THE CODE UNDER TEST cannot be logged (not on the exact grid although all inputs were, not finite, or far out
    of range).  Drivers report it as data -- the event gets exc = "UnloggableOutput" and fails the NoException clause of the property --
    never as a machinery failure."""


CLAMP = 10 ** 8       # certified intervals of outputs that do not fit are clamped here: they then contain no plausible numerator


def popcount(x: int) -> int:
    return bin(x).count("1")


def coalitions_by_size(n: int) -> list[int]:
    return sorted(range(1, 2 ** n), key=lambda c: (popcount(c), c))


def proper_subs(c: int) -> list[int]:
    """non-empty proper sub-coalitions of c"""
    out = []
    s = (c - 1) & c
    while s:
        out.append(s)
        s = (s - 1) & c
    return out


def minimal(n: int) -> list[int]:
    return [0, 2 ** n - 1] + [2 ** i for i in range(n)]


def explorable(n: int) -> list[int]:
    m = set(minimal(n))
    return [c for c in range(2 ** n) if c not in m]


# ---- hidden game lattices / random games (integers) -----------------------------------------

def random_sa_game(n: int, rng: random.Random, sing=(-5, 9), slack=(0, 3), p_zero_slack=0.4) -> list[int]:
    v = [0] * (2 ** n)
    for c in coalitions_by_size(n):
        if popcount(c) == 1:
            v[c] = rng.randint(*sing)
        else:
            best = max(v[s] + v[c - s] for s in proper_subs(c))
            v[c] = best + (0 if rng.random() < p_zero_slack else rng.randint(*slack))
    return v


def random_sa_game_cancelling(n: int, rng: random.Random, slack=(0, 3)) -> list[int]:
    """superadditive game whose singleton values have mixed signs and sum to exactly zero (not all zero)."""
    sing = [rng.randint(-6, 6) for _ in range(n - 1)]
    if not any(sing):
        sing[0] = 3
    sing.append(-sum(sing))
    v = [0] * (2 ** n)
    for c in coalitions_by_size(n):
        if popcount(c) == 1:
            v[c] = sing[c.bit_length() - 1]
        else:
            v[c] = max(v[s] + v[c - s] for s in proper_subs(c)) + rng.randint(*slack)
    return v


def random_sam_game(n: int, rng: random.Random, lo=-6) -> list[int]:
    """superadditive and monotone non-increasing (values <= 0)."""
    v = [0] * (2 ** n)
    for c in coalitions_by_size(n):
        if popcount(c) == 1:
            v[c] = rng.randint(lo, 0)
        else:
            subs = proper_subs(c)
            low = max(max(v[s] + v[c - s] for s in subs), lo * 2)
            high = min(v[s] for s in subs)
            v[c] = rng.randint(low, high) if low <= high else high
    return v


def random_any_game(n: int, rng: random.Random, rng_range=(-3, 6)) -> list[int]:
    return [0] + [rng.randint(*rng_range) for _ in range(2 ** n - 1)]


def is_superadditive_int(v: list, n: int) -> bool:
    return all(v[s] + v[c - s] <= v[c] for c in range(1, 2 ** n) for s in proper_subs(c))


# ---- logging numbers ----------------------------------------------------------------------

def exact_int(x, scale: int) -> int:
    """x*scale as an exact integer, or DriverError."""
    f = Fraction(float(x)) * scale
    if f.denominator != 1:
        raise DriverError(f"value {x!r} is not on the exact grid 1/{scale}")
    if abs(f.numerator) >= LIMIT:
        raise DriverError(f"value {x!r}*{scale} exceeds the 32-bit budget")
    return int(f.numerator)


def exact_arr(a, scale: int) -> list[int]:
    return [exact_int(x, scale) for x in np.asarray(a, dtype=np.float64).ravel()]


def quant_int(x, grid: float) -> int:
    y = float(x) * grid
    if not math.isfinite(y) or abs(y) >= LIMIT:
        raise DriverError(f"value {x!r} cannot be put on the quant grid")
    return int(round(y))


def quant_arr(a, grid: float) -> list[int]:
    return [quant_int(x, grid) for x in np.asarray(a, dtype=np.float64).ravel()]


def pow2_at_least(x: float) -> float:
    p = 1.0
    while p < x:
        p *= 2
    return p


def out_exact_arr(a, scale: int) -> list[int]:
    """exact_arr for values produced by the code under test"""
    try:
        return exact_arr(a, scale)
    except DriverError as ex:
        raise OutputError(str(ex)) from ex


def out_quant_arr(a, grid: float) -> list[int]:
    try:
        return quant_arr(a, grid)
    except (DriverError, ValueError, OverflowError) as ex:
        raise OutputError(str(ex)) from ex


def interval(f: float, den, rel_ulps: float = 64.0, mag: float | None = None, tight: bool = False) -> list[int]:
    """Integer interval certainly containing (true real value approximated by float f) * den,
    where |f - true| <= rel_ulps * 2^-53 * max(|f|, mag).
    tight=False: [floor, ceil] (contains the real number);  tight=True: [ceil, floor] = exactly the INTEGERS of the
    real interval (sound for testing membership of an integer; empty, a > b, when no integer fits)."""
    if not math.isfinite(float(f)):
        return [CLAMP, CLAMP]
    m = max(abs(float(f)), float(mag) if mag is not None else 0.0, 1e-300)
    delta = Fraction(rel_ulps) * Fraction(1, 2 ** 53) * Fraction(m)
    den = Fraction(den)
    lo = (Fraction(float(f)) - delta) * den
    hi = (Fraction(float(f)) + delta) * den
    if lo > hi:
        lo, hi = hi, lo
    a, b = (math.ceil(lo), math.floor(hi)) if tight else (math.floor(lo), math.ceil(hi))
    if abs(a) >= CLAMP or abs(b) >= CLAMP:
        # an output of the code under test far outside anything the inputs allow: logged as an interval nothing falls into
        sgn = -1 if a < 0 else 1
        return [sgn * CLAMP, sgn * CLAMP]
    return [a, b]


# ---- game object projection -----------------------------------------------------------------

def table_exact(game, scale: int) -> dict:
    return {"k": [int(b) for b in game.are_values_known()],
            "lo": exact_arr(game.get_lower_bounds(), scale),
            "up": exact_arr(game.get_upper_bounds(), scale)}


def table_quant(game, grid: float) -> dict:
    return {"k": [int(b) for b in game.are_values_known()],
            "lo": quant_arr(game.get_lower_bounds(), grid),
            "up": quant_arr(game.get_upper_bounds(), grid)}


def raw_table(game) -> bytes:
    return (np.asarray(game.are_values_known()).tobytes() + np.asarray(game.get_lower_bounds(), dtype=np.float64).tobytes()
            + np.asarray(game.get_upper_bounds(), dtype=np.float64).tobytes())


# ---- output ------------------------------------------------------------------------------

def dump(path, obj) -> None:
    with open(path, "w") as f:
        json.dump(obj, f, separators=(",", ":"))


def finish(summary: dict) -> None:
    print(json.dumps(summary))
    sys.stdout.flush()
