"""Source of truth for MANIFEST.json (regenerate with bin/mkmanifest)."""

CHECKS = {
    "C01": dict(
        level="model_checking", design="§5 C01", technique="TLA+ spec (MC_Bounds) model-checked with TLC + trace validation of the real bound computers (Trace_Bounds) + replay of TLC behaviours",
        text="TLC explores every hidden game of a small integer lattice x both SA computers x every history of reveal/un-reveal/bulk-reset/compute "
             "(stale tables kept as state) and checks soundness, ordering and exactness of known rows; recorded histories of the real "
             "IncompleteCooperativeGame (n=2..6; integer/dyadic/negative/tiny-magnitude/float games; reveal, un-reveal, set, unset, bulk set, bulk reset, compute) are validated step by step against the same specification, "
             "the soundness clauses being evaluated on the logged tables against the hidden game.",
        note="exhaustive only within the model constants (n=3 full history graph, n=4 reduced); beyond that sampled traces up to n=8 (short histories at n=7, 8, where 2^n passes 64 and 128); float games compared on a 2^-16 grid (1 unit tolerance)"),
    "C02": dict(
        level="model_checking", design="§5 C02", technique="TLA+ definitional layer (BestPartition / UpperDef / brute-force completions) checked by TLC against the algorithmic layer, + trace validation of the real computers",
        text="TLC proves on every (lattice game, knowledge set, history) of the model that the algorithmic bounds equal the best-partition / "
             "min-over-known-supersets definitions, that both extremes are attained by explicit superadditive completions, and (n=3) that they "
             "equal the brute-force minimum/maximum over all integer completions; every bound logged from the real computers (n=2..6) is compared "
             "by TLC with the definitional value computed from the logged knowledge (exact on dyadic games, n+2 grid units on float games).",
        note="integer completions only in the brute-force part (box widened by one unit); real-valued completions by the standard argument; exhaustive within model constants only"),
    "C03": dict(
        level="model_checking", design="§5 C03", technique="TLC on MC_Bounds (both folds on every reachable table) and MC_Cache + trace validation of twin objects interleaved across player counts in one interpreter",
        text="TLC checks that the two SA folds agree on every reachable table (stale rows included, games of any class, n<=3 quick / n=4 thorough) and that the "
             "memoised structure handed to a call is the one of its own player count under every interleaving; twin real objects (one per computer) "
             "go through identical histories (reveal, un-reveal, set, unset, bulk set, bulk reset, compute), traces for n=2..8 advanced in random interleaving inside one interpreter, and TLC demands equal tables "
             "and bit-identical float arrays on exact games (one grid unit on float games).",
        note="interleavings of the real interpreter are sampled, not exhausted; exhaustive within the model constants only"),
    "C04": dict(
        level="model_checking", design="§5 C04", technique="TLC on MC_Bounds with the SAM fold (SAM lattice games x histories x repetition counts) + trace validation of the real SAM computer",
        text="TLC checks soundness, ordering, not-looser-than-SA, monotonicity in the repetition count, lower monotonicity and both upper caps on every "
             "SAM lattice game x knowledge history x r in 0..3; recorded histories of the real computer (r in 0,1,2,5,10 and the registered 1,10,100,1000; "
             "integer SAM, coverage, budget, XOS/XS/OXS families) are validated clause by clause against the hidden game, with refinement against the "
             "TLA+ fold on exact games.",
        note="float families get property clauses only; exhaustive within the model constants only"),
    "C07": dict(
        level="model_checking", design="§5 C07", technique="TLC edge invariant over the knowledge lattice (MC_Bounds) + trace validation of reveal paths with certified integer intervals of the four gap functions",
        text="TLC checks at every fresh state of the model that revealing any still-unknown coalition shrinks every interval (every lattice edge, SA and SAM "
             "computers); reveal paths of the real object are validated: intervals never widen, each of the four real gap functions is non-negative, "
             "non-increasing, zero at full knowledge, and on exact games equals the specification's gap numerator (ExploitabilityN, L1, LInf, L2Sq).",
        note="gaps compared through integer numerators (n! * exploitability, l2 squared) with certified float intervals; exhaustive within the model constants only"),
    "C08": dict(
        level="model_checking", design="§5 C08", technique="TLC on MC_Bounds with stale tables as state (canonical-function and idempotence invariants) + trace validation + fresh-object and recompute bit-identity",
        text="TLC explores all histories of reveal/un-reveal/bulk-reset/compute on games of ANY class for all three computers with the stale table kept as state, "
             "and checks that every computed table equals the function of the knowledge alone and is a fixpoint of recomputation; every table computed by "
             "the real code along random histories equals the specification's canonical table (exact games), equals bit for bit the table of a fresh "
             "object given the same knowledge, and is unchanged by a second computation.",
        note="exhaustive within the model constants (n=3; n=4 reduced in thorough); step/unstep round trips of the environment are covered under C09/C13"),
    "C17": dict(
        level="model_checking", design="§5 C17", technique="TLC on MC_ICGame (all operation sequences, ghost meaning of 'known') + trace validation of random histories + replay of TLC-simulated behaviours into the real object",
        text="TLC explores every sequence of public operations (set/unset/reveal/un-reveal/bulk set/bulk reset/bulk and scalar bound setters/copy/negate/add) "
             "on up to three live objects for n<=2 and checks known-iff-meant, lower=upper=value, bulk setters respecting known rows, copy independence, negation swap/involution; "
             "random histories of the real object (n=1..5, several live objects) are validated call by call -- tables of ALL live objects and the outcome of every getter "
             "(value / ValueError / None / NaN) after every call -- and behaviours generated by TLC's simulator are executed on the real object and validated.",
        note="scalar bound setters only on unknown coalitions; duplicate-free coalition lists; exhaustive within n<=2, values {0,1}, depth<=4"),
    "C09": dict(
        level="model_checking", design="§5 C09", technique="TLC on MC_Gym (all reset/step/unstep sequences) + trace validation of real ICG_Gym runs (Trace_Gym) + replay of TLC-simulated behaviours into a real environment",
        text="TLC explores every sequence of reset/step/unstep with valid actions (n=3 exhaustive, n=4 bounded; all gaps, budgets None/1/2, computers matching the class, "
             "a fixed sequence of hidden games so that draws differ) and checks known = initial + chosen with hidden values, fresh bounds, reward sign, observation range, "
             "done semantics, reset drawing one new game; real environments (built directly on exact games and through ModelInstance.get_env() for the registered "
             "generator families) are driven through random non-LIFO step/unstep/reset walks and every returned observation, reward, done flag, info id, mask and the "
             "public state are validated event by event; TLC-simulated behaviours are executed on a real ICG_Gym fed with the model's games.",
        note="n<=5 on the real code plus short episodes at n=7, 8; float families on a grid with stated tolerances; actions are valid ones (the property's premise)"),
    "C13": dict(
        level="model_checking", design="§5 C13", technique="TLC undo invariant at every reachable environment state (MC_Gym) + trace validation of solver queries with observed reward ranks and of the expected-greedy search against the exhaustive optimum (Trace_Gym, Trace_Search)",
        text="At every state of recorded walks the driver probes each valid action through the public step/unstep API (logged as ordinary events, so the undo "
             "property is checked there too), logs the dense ranks of the float rewards, then queries the real solver; TLC checks that the choice is the "
             "lowest-index valid action that is maximal (greedy), minimal (worst-greedy), of largest size (largest) or merely valid (random), that the environment "
             "(table bits, counters, hidden game object, generator call count) is untouched, and that the observed ranks agree with the specification's exact gaps. "
             "The model proves undo restores the environment at every reachable state. The real expected-greedy search (get_greedy_rewards, with and without random tie-breaks, 1/2/4 processes) is "
             "validated: no coalition repeated, each extension minimises the mean gap over the sampled games, rows are the gaps of the chosen prefix, curve non-increasing, never below the "
             "exhaustive optimum (computed by TLC) and equal to it for zero and one reveals.",
        note="solver rule judged on the rewards the environment actually returned; n=3 all states, n=4..5 sampled"),
    "C16": dict(
        level="model_checking", design="§5 C16", technique="TLC on MC_Gym's linear view (every allowed candidate) + trace validation of real ICG_Gym_Linear episodes with the inner environment logged",
        text="TLC checks for every reachable inner state that size k is allowed iff a candidate exists and that every allowed candidate's step reveals exactly one unknown "
             "coalition of that size; real linear environments (n=3..6, exact games and generator families) are run over sequences of allowed sizes and TLC validates: "
             "exactly one previously unknown explorable coalition of the requested size became known and is reported, the step is an inner step of an allowed action, "
             "reward/done are the inner environment's, mask and observation are the per-size aggregation (length n) after reset and every step.",
        note="tie-breaks of the real wrapper are sampled (numpy global RNG), all candidates are covered in the model"),
    "C05": dict(
        level="model_checking", design="§5 C05", technique="TLC on MC_Shapley: identity on a basis of the linear input space, domination on all corners of small boxes; trace validation of compute_exploitability with certified integer numerators",
        text="Both sides of 'exploitability = summed best-case Shapley gain = binomially weighted gap' are linear in (lower, upper); TLC checks the identity on every unit "
             "bound vector for n=2..6 (quick) / 2..8 (thorough), and non-negativity, zero-iff-degenerate and per-player domination on every box of a {0,1} lattice (all corners) "
             "for n=2,3; the real compute_exploitability is evaluated on all unit vectors (n<=6/8), random integer/dyadic/negative/inverted vectors and integer combinations, "
             "and its float result, bound by a certified integer interval of n!*scale*value, must contain the specification's two closed forms; completions inside boxes are "
             "run through the real Shapley code and compared with the per-player maxima.",
        note="basis enumeration instead of a computer-algebra proof; identity asserted only with empty coalition at 0 and grand coalition known; real code to n=10 (sparse bound vectors at 9, 10), protocol objects other than IncompleteCooperativeGame (float / Fraction bounds), refused calls in between"),
    "C06": dict(
        level="model_checking", design="§5 C06", technique="TLC on MC_Shapley: weighted form vs the n! orderings on all unit games (n<=6), efficiency/symmetry/null-player to n=10; trace validation of both real entry points",
        text="TLC checks the code's weighted-sum form against the average marginal contribution over all n! orderings on every unit game for n=2..5 (quick) / 2..6 (thorough) "
             "and on all games with values in {0,1,2} for n=3, plus efficiency, symmetry under transpositions and the null-player law up to n=8 (10 thorough); "
             "compute_shapley_value and compute_shapley_value_for_player are run on all unit games (n<=7/10) and random integer, dyadic, negative, null-player, relabelled and "
             "combined games, and their results (certified integer intervals of n!*scale*value) must contain the specification's ordering average; both entry points must agree bit for bit.",
        note="linearity argument instead of a symbolic proof; orderings enumerated up to n=6 on recorded results, weighted form beyond (sparse games at n=11, 12); certified float intervals sized by the player's own marginals, games anchored at 2^44 judged on their small part"),
    "C10": dict(
        level="exploration", design="§5 C10", technique="registry swept by a driver; TLC evaluates the TLA+ contract table, class predicates and determinism clauses on every recorded call (Trace_Generators); determinism state machine model-checked",
        text="Every key of the generator registry except 'convex' is invoked for n=3..6 (quick, 24/16/6/3 seeds) / 3..8 (thorough, 160..20 seeds), twice per seed with identically seeded "
             "numpy Generators, the first result being modified in place before the second call, and a third time after every other name and seed at that player count has been called in between; TLC checks on each recorded pair: no exception, requested player count, v(empty)=0, float64, superadditive, additionally monotone "
             "non-increasing for the XOS/XS/OXS/K-budget/coverage families (contract table in Generators.tla), bit-identical repeat unless the family is a documented "
             "exception, and owner rotation for the round-robin factory.",
        note="seeds are sampled, not exhausted; the specification contributes the oracle, not exhaustiveness"),
    "C15": dict(
        level="model_checking", design="§5 C15", technique="TLC on MC_Normalize (theorems on all lattice / graph games, code loop = definition) + trace validation of normalize/denormalize on exact games and every generator family (Trace_Normalize)",
        text="TLC checks on every superadditive lattice game (n=3,4) and every graph game with small weights that the code's subtraction loop computes the definitional "
             "zero-normalisation, singletons are 0, values lie in [0, surplus], additive games give the zero game, superadditivity is preserved and de-normalisation is the inverse; "
             "the real normalize_game/denormalize_game are run on exact integer/dyadic/additive/negative/graph games (outputs bound by certified integer intervals of out*surplus) "
             "and on every registered generator family in both representations (2^-20 grid, tolerance growing with the condition number), including nearly-additive float games.",
        note="tolerance is trivial beyond condition number 2^26; a surplus within 2n*2^-52*scale of zero must give the zero game"),
    "C18": dict(
        level="exploration", design="§5 C18", technique="exhaustive enumeration of the finite domain by a driver, every recorded result judged by TLC against the TLA+ finite-set semantics (Trace_Coalitions); algebra self-consistency model-checked (MC_Coal)",
        text="For n=1..8 (quick) / 1..10 (thorough) every coalition's players, size, complement, sub- and super-coalition enumerations in the object form and the id-array form, "
             "all ordered pairs (n<=4 / n<=6, sampled beyond) for union/intersection/difference/containment/disjointness/equality, every (coalition, player) for add/remove/membership, "
             "and the four class predicates on all integer games with values in {-1,0,1} on 2 and 3 players, random games on 4 and 5 players and crafted near-tolerance games "
             "are recorded from the real code; TLC compares each with SetOf/IdOf finite-set semantics and the textbook definitions.",
        note="transcription of pure functions into TLA+ with TLC as oracle; exhaustive for the stated n"),
    "C19": dict(
        level="model_checking", design="§5 C19", technique="TLC on MC_ResultsFile (all save sequences) + Apalache inductive argument over the same Save operator for unbounded histories (Apa_ResultsFile) + trace validation of real save_json/save/command runs with complete read-back after every call (Trace_Save)",
        text="TLC explores all sequences of up to 5 saves over 3 names x 4 entries and checks that earlier entries never change, a repeated name is a no-op and a new name adds exactly "
             "its entry; Apalache proves base and inductive step of 'never overwritten' over the same operators for any number of saves (and must fail on a mutated Save); sequences of real saves (new and repeated names, odd names, matrices of random 2-D/3-D shapes with NaN, -0.0, subnormal, huge and infinite values, metadata with "
             "Path, dates, numpy scalars, functions) are executed and after EVERY call data.json is read back through Output.from_file / get_outputs_from_file and compared by TLC with "
             "Save(previous file, name, entry) on float bit-pattern tokens; solve / greedy / best_states are run in-process and the saved matrices must be the ones the evaluation or search produced.",
        note="floats as bit-pattern tokens; metadata oracle stated in the driver; save() exercised with finite gaps and at least one revealed coalition"),
    "C20": dict(
        level="fault_enumeration", design="§5 C20", technique="fault injection at every file operation of a real save (process death and interrupting exception, forked children) judged by TLC (Trace_Crash) + TLC on the FS model running the OBSERVED operation sequence with a crash after every prefix",
        text="For file histories with 0,1,3 (quick) / 0..6 (thorough) earlier runs x result sizes x new/repeated name, one uninterrupted real save is recorded as a program of file "
             "operations; then one forked child per operation index and crash kind (os._exit: user-space buffers lost; KeyboardInterrupt: unwinds through `with`) runs the real save and dies "
             "there, and the parent classifies the bytes of data.json: TLC demands previous-or-complete-new, parseable, earlier runs preserved for every injected fault. The observed program "
             "is also run on the TLA+ file-system model, where TLC places death / interruption / spontaneous buffer flushes after every prefix (including points with no Python-level hook); "
             "reference programs (in-place, temp-then-replace, replace-before-close, unlink-then-rename) self-test the model.",
        note="process death only (no power loss / fsync semantics); leftover scratch files are allowed; faults are injected inside save_json, the save following an interrupted one also goes through the public save()"),
    "C11": dict(
        level="model_checking", design="§5 C11", technique="TLC on MC_Search (process-pool model: chunking, any worker schedule, chunk-local game copies) + trace validation of the real search for several worker counts, MetaGame and best-states (Trace_Search)",
        text="TLC checks on the pool model that the enumeration is exactly the set of reveal sets of size <= k without duplicates, that the chunks partition the task list, and that for every "
             "number of workers, chunking and schedule each set is evaluated exactly once with the gap of (starting knowledge + set); the real get_exploitabilities_of_action_sequences is run with "
             "1..4 (quick) / 1..16 (thorough) processes on exact games with random starting knowledge, size limits, all gaps and computers: TLC demands every reveal set exactly once, each "
             "reported gap = gap of exactly that knowledge (certified integer numerators), bit-identical results across process counts; MetaGame.get_value returns the same quantity; the sampling and stacked forms report, per sampled/given game, the gap of exactly that knowledge; "
             "best-states rows are the per-game gaps of a set of that size attaining the minimum mean, with a non-increasing curve for in-class games.",
        note="real pool schedules are not controllable (covered on the model); n=3,4; best-states and expected-greedy also on games far outside the class (norm gaps), where the curve is not monotone"),
    "C12": dict(
        level="model_checking", design="§5 C12", technique="TLC on MC_Evaluate (Pool.starmap model with pickled generator copies, all schedules) + trace validation of real evaluate() runs with worker-side recording of the hidden games (Trace_Evaluate)",
        text="TLC explores every schedule of evaluate() over the process-pool model (environments built in the parent, chunks pickled after the list exists, workers taking chunks in any "
             "order) for R<=5/9 repetitions and P<=3/4 workers and checks that the hidden game and the solver's random stream of repetition j are functions of (seed, j) only and pairwise distinct; "
             "the pre-repair mechanism (hidden game drawn in the worker from the chunk's pickled generator copy) is kept as a second mode that TLC must find violating. Real evaluate() runs "
             "(4 solvers x exact and continuous generators x seeds x 1/3/8(/24) repetitions x 1..4 (quick) / 1..16 (thorough) processes) record each repetition's hidden game inside the worker; "
             "TLC recomputes every gap curve from the recorded game and actions (row 0 = minimal information, row t+1 after the t-th recorded coalition, distinct explorable ids, early stop only "
             "when done), demands pairwise distinct games on continuous generators and bit-identical matrices and games for every process count. The `solve` COMMAND is traced too: the argument "
             "parser, ModelInstance.from_parsed_arguments, solve_func, save and data.json read back must hand on exactly what the direct evaluate() of the same configuration returns.",
        note="schedules of the real pool are not controllable; independence is judged as 'no two repetitions see the same continuous-valued game'"),
    "C14": dict(
        level="model_checking", design="§5 C14", technique="TLC on MC_Regret with exact rationals (all iteration histories, n=3; table-domain and ranking invariants n=4) + trace validation of real GameRegretMinimizer runs, with refinement against the exact model for n=3 (Trace_Regret)",
        text="TLC explores every history of up to 2-3 iterations with terminal values {0,1,2} on every leaf for n=3 and every limit 1..5 (plain and plus) in exact rational arithmetic and checks: "
             "every id the constructor writes lies inside the allocated table, the ranking is a bijection ordered by size, current and average strategies are distributions supported on "
             "unrevealed coalitions, the added regret is orthogonal to the strategy played, plus keeps regret non-negative; construction/ranking invariants for n=4 and every limit. "
             "Real minimisers are constructed for n=3 (limits 1..5), n=4 (limits 1,2,5,9,10,12 quick / 1..12 thorough), n=5 (limits 1..3, thorough), iterated with non-negative terminal values, "
             "and observed through regret_matching_strategy / get_average_strategy / cumulative_regret at sampled nodes after each iteration, plus save->load->continue; TLC checks the "
             "property clauses on the logged values and, for n=3, agreement with the exact rational model.",
        note="float32 state compared on a 2^-10 grid; the model's pre-repair modes (unclipped limit, table sized by count) are kept as self-tests TLC must find violating"),
}

NOT_YET = "check not built yet (build in progress; see DESIGN.md §5 for the plan)"

NOTES = ("Model-based verification with an explicit TLA+ specification (spec/*.tla), three uses of TLC: model checking of MC_* instances, "
         "trace validation of recorded executions of the real code (Trace_* specs, drivers in harness/drivers), and replay of TLC-simulated behaviours into the "
         "real objects. Entry point: bin/check <ID> --tier quick|thorough [--replay FILE]. DESIGN.md section 11 describes what was built, the six genuine "
         "defects repaired in /repo (fix: commits), the open known finding D12b (known_findings.json) and which checks catch which of the 40 independently seeded "
         "changes (seeded/). bin/selftest demonstrates the binding (corrupted traces are rejected); bin/check-extra X01 covers the multiplicative module "
         "(specification growth beyond the listed properties). Exit codes: 0 held, 1 VIOLATION, 2 machinery failure.")
