"""C02 — superadditive bounds are tight: the extreme superadditive completions."""
from common_bounds import mc_bounds, validate_bounds_traces

LEVEL = "model_checking"
INV = ["LowerIsBP", "UpperIsDef", "LowerAttained", "UpperAttained"]


def run(chk, args):
    chk.rule = ("distinct (trace, knowledge set) pairs at compute events with at least one unknown coalition; every logged lower/upper "
                "bound is compared with the definitional BestPartition / UpperDef evaluated by TLC on the logged knowledge")
    chk.assumptions = [
        "extremes over REAL-valued completions follow from the integer statement by the standard argument (soundness does not use integrality); "
        "TLC enumerates integer completions only (box widened by one unit, n=3)",
        "exhaustive only within the model constants",
    ]
    q = chk.tier == "quick"
    mc_bounds(chk, "SA3", N=3, cls="SA", sing="m1to1", slacks="0to2", computers={"sa", "sac"}, reps={0}, maxchg=1,
              allow_reset=True, tight=True, edges=False, invariants=INV)
    mc_bounds(chk, "SA3brute", N=3, cls="SA", sing="m1and1" if q else "m1to1", slacks="0to2" if q else "0to3", computers={"sa"}, reps={0},
              maxchg=1, allow_reset=True, tight=True, edges=False, brute=True, invariants=["AllCompletionsInside"], timeout=3000)
    if not q:
        mc_bounds(chk, "SA4", N=4, cls="SA", sing="zero", slacks="0to1", computers={"sac"}, reps={0}, maxchg=1,
                  allow_reset=False, tight=True, edges=False, invariants=INV, timeout=5400)
    validate_bounds_traces(chk, [
        {"family": "sa", "ns": "2,3,4,5" if q else "2,3,4,5,6", "count": 40 if q else 250, "length": 14 if q else 20},
        {"family": "float_sa", "ns": "3,4,5", "count": 20 if q else 120, "length": 12},
        # player counts beyond 6: 2^n passes 64 (seeds C04-d, C08-d: a 64-bit key over coalitions silently wraps there)
        {"family": "sa", "ns": "7,8", "count": 3 if q else 20, "length": 10},
        # 2^n = 512 (seed C01-e: a uint8 cast loses the players from 8 upwards); n = 10 in the thorough tier
        {"family": "sa", "ns": "9", "count": 2 if q else 6, "length": 6},      # (the definitional best-partition oracle is too slow for TLC at n = 10)
    ])
