"""C14 — regret minimiser: constructible at every size; strategies valid distributions."""
from pathlib import Path

import vlib
from vlib import MachineryError

LEVEL = "model_checking"
INV = ["ConstructibleInv", "RankBijectionInv", "CurrentStrategiesAreDistributions", "AverageStrategiesAreDistributions",
       "RegretOrthogonalToStrategy", "PlusKeepsRegretNonNegative", "UsedActionsNeverGainRegret"]


def mc(chk, name, *, NP, L, plus, maxiter, termvals, iterate=True, clip=True, alloc=True, invariants=None, expect=None, timeout=1200):
    cfg = chk.wd / f"MC_Regret_{name}.cfg"
    vlib.write_cfg(cfg, constants={"NP": NP, "L": L, "ClipLimit": clip, "AllocByMaxId": alloc, "Plus": plus, "MaxIter": maxiter,
                                   "TermVals": set(termvals), "Iterate": iterate}, invariants=invariants or INV)
    chk.model_check("MC_Regret", cfg.name, cfg_path=cfg, expect_violation=expect, timeout=timeout)


def validate(chk, configs, iters):
    import json
    summ = vlib.run_driver("drv_regret", ["--out", str(chk.wd / "rg"), "--seed", str(chk.seed), "--configs", ",".join(f"{n}:{L}" for n, L in configs),
                                          "--iters", str(iters)], chk.wd, timeout=3400)
    for f in summ["files"]:
        n, L = f["n"], f["L"]
        cfg = chk.wd / f"Trace_Regret_n{n}_L{L}.cfg"
        vlib.write_cfg(cfg, spec="TraceSpec", constants={"NP": n, "L": L, "ClipLimit": True, "AllocByMaxId": True, "Props": {"C14"}, "Refine": n == 3},
                       postcondition="AllConsumed")
        res = vlib.run_tlc("Trace_Regret", cfg, chk.wd, env={"TRACE_FILE": f["path"]}, timeout=1500)
        if res.timed_out or not res.ok:
            raise MachineryError(f"trace validation failed to run on n={n} L={L}:\n{res.error_text()}")
        chk.states += res.distinct
        chk.transitions += res.generated
        chk.mc_runs.append({"spec": "Trace_Regret", "cfg": f"trace:n{n}:L{L}", "generated": res.generated, "distinct": res.distinct})
        verdicts = vlib.extract_tagged(res.out, "VERDICT")
        if verdicts:
            data = json.loads(Path(f["path"]).read_text())
            by = {t["tid"]: t for t in data["traces"]}
            seen = set()
            for v in verdicts:
                _, tid, ev, prop, clause = v[:5]
                if (tid, clause) in seen:
                    continue
                seen.add((tid, clause))
                T = by[tid]
                slim = dict(T)
                slim["rank_to_id"] = T["rank_to_id"][:64]
                slim["inv"] = T["inv"][:64]
                rp = chk.write_replay({"kind": "trace", "spec": "Trace_Regret", "n": n, "L": L, "failing_event": ev, "clause": clause, "trace": slim})
                chk.violation({"kind": "trace", "clause": clause, "n": n, "limit": L, "plus": T["plus"], "tid": tid, "event": ev, "ctor_exc": T["exc"]}, rp)
        chk.traces += f["traces"]
        chk.evaluations += f["events"]
        chk.distinct_nontrivial += f["traces"]
        if len(chk.samples) < 4:
            chk.samples.append(f["sample"])


def run(chk, args):
    chk.rule = ("one constructed minimiser per trace (n, limit, plain/plus), iterated with non-negative terminal values and observed through regret_matching_strategy / "
                "get_average_strategy / cumulative_regret at a sample of nodes after every iteration; traces distinct by (n, limit, variant, terminal kind)")
    chk.assumptions = ["exact rationals in the model, float32 state on a 2^-10 grid in the traces (tolerances derived from the grid); refinement against the exact model for n=3 only",
                       "model exhaustive for n=3 (every limit, <=2 iterations, terminal values {0,1,2}); table-domain and ranking invariants for n=4 (every limit) without iterating",
                       "n=5 allocates a 2^25-entry id table (about 270 MB) and is exercised in the thorough tier only"]
    q = chk.tier == "quick"
    for L in (1, 2, 3, 4, 5):
        mc(chk, f"n3L{L}", NP=3, L=L, plus=False, maxiter=2 if L != 2 else 2, termvals={0, 1, 2} if L <= 3 else {0, 2})
    mc(chk, "n3L2plus", NP=3, L=2, plus=True, maxiter=2, termvals={0, 1, 2})
    mc(chk, "n3L3plus", NP=3, L=3, plus=True, maxiter=3, termvals={0, 1, 2})
    for L in ([1, 2, 4, 5, 9, 10, 12] if q else range(1, 13)):
        mc(chk, f"n4L{L}", NP=4, L=L, plus=False, maxiter=0, termvals={0}, iterate=False, invariants=["ConstructibleInv", "RankBijectionInv"])
    # the model can express both defects found on the unrepaired tree (self-test of the model)
    mc(chk, "selftest_unclipped", NP=3, L=4, plus=False, maxiter=1, termvals={0, 1}, clip=False, expect="CurrentStrategiesAreDistributions")
    mc(chk, "selftest_alloc", NP=3, L=1, plus=False, maxiter=0, termvals={0}, iterate=False, alloc=False, expect="ConstructibleInv")
    cfgs = [(3, L) for L in (1, 2, 3, 4, 5)] + [(4, L) for L in ([1, 2, 5, 9, 10, 12] if q else range(1, 13))]
    if not q:
        cfgs += [(5, 1), (5, 2), (5, 3)]
    validate(chk, cfgs, 3 if q else 6)
    if q:
        # the remaining limits of n = 4 and two limits of n = 5 with a single iteration (seed C14-f: a rank table whose integer type is
        # chosen from the number of internal nodes wraps for n = 4 / limit 4 and n = 5 / limit 2 only)
        validate(chk, [(4, L) for L in (3, 4, 6, 7, 8, 11)] + [(5, 1), (5, 2)], 1)
