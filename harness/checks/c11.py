"""C11 — exhaustive search evaluates each reveal set once, correctly; finds the optimum."""
from common_search import mc_search, validate_search

LEVEL = "model_checking"


def run(chk, args):
    chk.rule = ("one call of the real search per trace (get_exploitabilities_of_action_sequences for each worker-process count, MetaGame.get_value, "
                "get_best_exploitability) on exact-domain games with random starting knowledge and size limits; all traces distinct by construction")
    chk.assumptions = ["schedules of the real pool cannot be forced: all schedules/chunkings are explored on the model (P<=3, n=3), results of the real code are compared across "
                       "process counts 1..4 (quick) / 1..16 (thorough)",
                       "best-states is checked for exploitability, l1 and l-infinity gaps (exact integer numerators); ties may be broken either way"]
    q = chk.tier == "quick"
    mc_search(chk, "n3k2", N=3, game=2, comp="sac", rep=0, gap="exploitability", maxsize=2, procs={1, 2},
              invariants=["EnumerationIsExactlyTheRevealSets", "ChunksPartitionTasks", "EachOnce", "ResultIsGap", "NeverTwice", "CurveNonIncreasing"])
    mc_search(chk, "n3k3sam", N=3, game=4, comp="sam", rep=1, gap="l1_norm", maxsize=3, procs={2})
    mc_search(chk, "n4k1", N=4, game=1, comp="sa", rep=0, gap="linf_norm", maxsize=1, procs={2, 3}, extra={3, 5, 6, 9, 10, 12, 7})
    if not q:
        mc_search(chk, "n3k3", N=3, game=1, comp="sac", rep=0, gap="exploitability", maxsize=3, procs={1, 2, 3}, timeout=3000)
        mc_search(chk, "n4k2", N=4, game=2, comp="sac", rep=0, gap="exploitability", maxsize=2, procs={1, 4}, extra={3, 5, 6, 9, 10, 12, 7}, timeout=3000)
    validate_search(chk, "search", "3,4", 6 if q else 40, "1,2,3,4" if q else "1,2,3,4,5,6,8,12,16")
    validate_search(chk, "best", "3,4", 16 if q else 80, "1,2,3" if q else "1,2,3,4,6,8")
