"""C18 — coalitions are finite sets in both representations; predicates match definitions."""
from pathlib import Path

import vlib
from common_bounds import validate_file

LEVEL = "exploration"
INV = ["IdBijective", "SizeIsCard", "UnionIsOr", "InterIsAnd", "DiffIsAndNot", "ComplIsRest", "SubsAreSubsets", "SupersAreSupersets",
       "SubIffContained", "RelCodesPartition"]


def run(chk, args):
    chk.rule = ("one recorded operation result per item: every coalition (object and id-array forms) for each n up to 8 (quick) / 10 (thorough) and a sample containing every singleton, co-singleton and the top players' coalitions up to n = 10 / 12, per-coalition, pair and player operations (without sub-/super-coalition lists) for n = 16, 17, 24, 30, all ordered pairs for small n (sampled above), "
                "every (coalition, player), all integer games with values in {-1,0,1} on 2 and 3 players and random games on 4, 5 for the predicates, "
                "crafted near-tolerance games; all items are distinct by construction")
    chk.assumptions = ["finite enumeration with the TLA+ finite-set semantics as oracle (transcription of pure functions); exhaustive for the stated n only"]
    q = chk.tier == "quick"
    for n in ([2, 3, 4] if q else [2, 3, 4, 5, 6]):
        cfg = chk.wd / f"MC_Coal_n{n}.cfg"
        vlib.write_cfg(cfg, constants={"N": n}, invariants=INV)
        chk.model_check("MC_Coal", cfg.name, cfg_path=cfg)
    summ = vlib.run_driver("drv_coalitions", ["--out", str(chk.wd / "co"), "--seed", str(chk.seed), "--ns", "1,2,3,4,5,6,7,8,9,10" if q else "1,2,3,4,5,6,7,8,9,10,11,12",
                                              "--coal-sample-above", "8" if q else "10", "--big-ns", "16,17,24,30" if q else "13,15,16,17,20,24,25,30",
                                              "--all-pairs-max-n", "4" if q else "6", "--pair-samples", "300" if q else "3000",
                                              "--random-preds", "40" if q else "400"], chk.wd, timeout=3000)
    for f in summ["files"]:
        validate_file(chk, Path(f["path"]), f["n"], {"C18"}, "coalitions", spec="Trace_Coalitions")
        chk.traces += f["traces"]
        chk.evaluations += f["events"]
        chk.distinct_nontrivial += f["traces"]
        if len(chk.samples) < 4:
            chk.samples.append({"n": f["n"], "kinds": f["kinds"], "item": f["sample"]})
    for f in summ["big_files"]:
        validate_file(chk, Path(f["path"]), f["n"], {"C18"}, "coalitions-big", spec="Trace_CoalBig")
        chk.traces += f["traces"]
        chk.evaluations += f["events"]
        chk.distinct_nontrivial += f["traces"]
    chk.samples.append({"n": summ["big_files"][-1]["n"], "kinds": summ["big_files"][-1]["kinds"], "item": summ["big_files"][-1]["sample"]})
    chk.exhaustive = True
