"""C19 — saved results read back faithfully and are never overwritten."""
from pathlib import Path

import vlib
from common_bounds import validate_file

LEVEL = "model_checking"


def run(chk, args):
    chk.rule = ("events = calls of save_json / save / the solve, greedy, best_states commands, each followed by a complete read-back of data.json through the "
                "library's readers; distinct_nontrivial = events that added a new name")
    chk.assumptions = ["floats are compared as tokens of their bit patterns (all NaNs one token)",
                       "'metadata up to JSON stringification' is stated independently in the driver: JSON-native values as they are, Path as str, anything else as repr",
                       "save() (with its plot savers) is exercised with finite gap matrices; a repeated name may raise FileExistsError in the plot saver, the clause is on data.json",
                       "model: all save sequences of length <= 5 over 3 names x 4 entries (TLC); files of up to 8 integer names, any number of saves (Apalache, inductive)"]
    import json
    q = chk.tier == "quick"
    chk.model_check("MC_ResultsFile", "MC_ResultsFile.cfg")
    # unbounded histories: the same Save / EarlierUnchanged operators, inductive argument with Apalache (and a mutated Save must fail it)
    chk.apalache_inductive("Apa_ResultsFile", "NeverOverwritten", nxt="NextAny",
                           mutate=("ResultsFile.tla", "IF name \\in DOMAIN file THEN file\n", "IF name \\in DOMAIN file THEN [x \\in DOMAIN file |-> IF x = name THEN entry ELSE file[x]]\n"))
    summ = vlib.run_driver("drv_save", ["--out", str(chk.wd / "sv"), "--seed", str(chk.seed), "--count", str(40 if q else 300), "--nsaves", str(8 if q else 12),
                                        "--commands", str(4 if q else 30)], chk.wd, timeout=3000)
    f = summ["files"][0]
    validate_file(chk, Path(f["path"]), 1, {"C19"}, "saves", spec="Trace_Save")
    chk.traces += f["traces"]
    chk.evaluations += f["events"]
    data = json.loads(Path(f["path"]).read_text())
    for T in data["traces"]:
        seen = set()
        for e in T["events"]:
            if e["name"] not in seen:
                chk.distinct_nontrivial += 1
            seen.add(e["name"])
    chk.samples.append(f["sample"])
