"""X03 (not a listed property; specification growth): hidden games of the training-time vector environments."""
from pathlib import Path

import vlib
from common_bounds import validate_file

LEVEL = "model_checking"


def run(chk, args):
    chk.rule = ("one vector environment (ModelInstance.env_generator, sequential or parallel class, 1..3 sub-environments) per trace; the hidden game "
                "of every sub-environment after construction and after each vector reset is located in the seed's stream of games")
    chk.assumptions = ["outside the listed properties: the training-time analogue of C12's independence clause (DESIGN 11.6)",
                       "the parallel class is EXPECTED to violate DistinctAcrossEnvs on the model, and the real workers are expected to replay one "
                       "stream (a defect of the repository recorded as an observation, not under any listed property)"]
    q = chk.tier == "quick"
    for kind, expect in (("sequential", None), ("parallel", "DistinctAcrossEnvs")):
        cfg = chk.wd / f"MC_VecEnv_{kind}.cfg"
        vlib.write_cfg(cfg, constants={"E": 3, "Kind": kind, "MaxResets": 3 if q else 5}, invariants=["TypeOK", "DistinctAcrossEnvs"])
        chk.model_check("MC_VecEnv", cfg.name, cfg_path=cfg, expect_violation=expect)
    summ = vlib.run_driver("drv_vecenv", ["--out", str(chk.wd / "ve"), "--seed", str(chk.seed), "--count", str(3 if q else 10)], chk.wd)
    for f in summ["files"]:
        validate_file(chk, Path(f["path"]), 1, {"X03"}, "vecenv", spec="Trace_VecEnv")
        chk.traces += f["traces"]
        chk.evaluations += f["events"]
        chk.distinct_nontrivial += f["traces"]
        chk.samples.append(f["sample"])
