from pathlib import Path

import vlib
from common_bounds import validate_file


def mc_shapley(chk, name, N, mode, useperm, invariants, timeout=900):
    cfg = chk.wd / f"MC_Shapley_{name}.cfg"
    vlib.write_cfg(cfg, constants={"N": N, "Mode": mode, "UsePerm": useperm, "SmallVals": {0, 1, 2}}, invariants=invariants)
    return chk.model_check("MC_Shapley", cfg.name, cfg_path=cfg, timeout=timeout)


def validate_shapley(chk, what, ns, rnd, unit_max_n):
    summ = vlib.run_driver("drv_shapley", ["--out", str(chk.wd / "sh"), "--seed", str(chk.seed), "--what", what, "--ns", ns,
                                           "--random", str(rnd), "--unit-max-n", str(unit_max_n)], chk.wd)
    for f in summ["files"]:
        validate_file(chk, Path(f["path"]), f["n"], {chk.prop}, f"{what}", spec="Trace_Shapley")
        chk.traces += f["traces"]
        chk.evaluations += f["events"]
        chk.distinct_nontrivial += f["traces"]
        if len(chk.samples) < 5:
            chk.samples.append({"n": f["n"], **f["sample"]})
