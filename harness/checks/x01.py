"""X01 (not a listed property; specification growth): multiplicative factors and the Max-XOS approximation contract."""
from pathlib import Path

import vlib
from common_bounds import validate_file

LEVEL = "exploration"


def run(chk, args):
    chk.rule = "one call of a mul_factor_* function or of compute_max_xos_approximation per trace; traces distinct by construction"
    chk.assumptions = ["outside the listed properties: kept as coverage growth of the specification (DESIGN 11.6)"]
    q = chk.tier == "quick"
    summ = vlib.run_driver("drv_multiplicative", ["--out", str(chk.wd / "mu"), "--seed", str(chk.seed), "--ns", "3,4,5" if q else "3,4,5,6,7",
                                                  "--count", str(24 if q else 200)], chk.wd)
    for f in summ["files"]:
        validate_file(chk, Path(f["path"]), f["n"], {"X01"}, "multiplicative", spec="Trace_Multiplicative")
        chk.traces += f["traces"]
        chk.evaluations += f["events"]
        chk.distinct_nontrivial += f["traces"]
        chk.samples.append(f["sample"])
