"""C04 — approximate superadditive-monotone bounds are sound, ordered, self-consistent."""
from common_bounds import mc_bounds, validate_bounds_traces

LEVEL = "model_checking"
INV = ["SoundInv", "OrderedInv", "KnownExactInv", "SamNotLooser", "SamMonotoneInR", "SamLowerMono", "SamUpperCaps"]


def run(chk, args):
    chk.rule = ("distinct (trace, knowledge set) pairs at compute events with an unknown coalition; twin objects with the cached SA computer "
                "and the SAM approximation for several repetition counts go through the same history")
    chk.assumptions = ["float SAM traces (XOS/XS/OXS families) get property clauses only (no refinement: rounding can double per iteration)",
                       "exhaustive only within the model constants"]
    q = chk.tier == "quick"
    mc_bounds(chk, "SAM3", N=3, cls="SAM", sing="m3to0", slacks="m3to0", computers={"sam"}, reps={0, 1, 2, 3}, maxchg=2,
              allow_reset=True, tight=False, edges=False, invariants=INV)
    if not q:
        mc_bounds(chk, "SAM4", N=4, cls="SAM", sing="m2to0", slacks="m2to0", computers={"sam"}, reps={0, 1, 2, 4}, maxchg=1,
                  allow_reset=False, tight=False, edges=False, invariants=INV, timeout=5400)
    validate_bounds_traces(chk, [
        {"family": "sam", "ns": "3,4" if q else "3,4", "count": 20 if q else 120, "length": 12 if q else 16, "reps": "0,1,2,5,10"},
        {"family": "sam", "ns": "5" if q else "5,6", "count": 40 if q else 200, "length": 12 if q else 18, "reps": "0,1,3"},
        {"family": "sam", "ns": "3,4", "count": 6 if q else 30, "length": 8, "reps": "1,10,100,1000"},
        {"family": "float_sam", "ns": "3,4,5", "count": 15 if q else 100, "length": 10, "reps": "0,1,2,10"},
        # player counts beyond 6: 2^n passes 64 (seeds C04-d, C08-d: a 64-bit key over coalitions silently wraps there)
        {"family": "sam", "ns": "7,8", "count": 3 if q else 16, "length": 10, "reps": "0,1,3"},
        {"family": "float_sam", "ns": "7", "count": 3 if q else 16, "length": 10, "reps": "0,2"},
        {"family": "sam", "ns": "9", "count": 2 if q else 6, "length": 6, "reps": "0,1"},
        # knowledge sets (searched for with the real code) on which the second sweep matters: here r = 1 is strictly tighter than r = 0,
        # so "never loosens when the repetition count is raised" can fail for the registered long runs
        {"family": "sam_sensitive", "ns": "7", "count": 3 if q else 12, "length": 6, "reps": "0,1,2,100,1000", "interleave": 0},
    ])
    from common_bounds import replay_bounds_behaviours
    replay_bounds_behaviours(chk, "SAM3", {"N": 3, "cls": "SAM", "sing": "m3to0", "slacks": "m3to0", "computers": {"sam"}, "reps": {0, 1, 2, 3}}, 50 if q else 400)
    replay_bounds_behaviours(chk, "SAM4", {"N": 4, "cls": "SAM", "sing": "m2to0", "slacks": "m2to0", "computers": {"sam"}, "reps": {0, 1, 3}}, 30 if q else 300, 20)
