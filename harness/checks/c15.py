"""C15 — normalisation maps superadditive games into [0,1] and is invertible."""
from pathlib import Path

import vlib
from common_bounds import validate_file

LEVEL = "model_checking"
INV = ["PremiseSA", "AlgEqualsDef", "SingletonsZero", "UnitRange", "GrandOneOrZero", "SurplusNonNeg", "StillSuperadditive",
       "DenormIsInverse", "GraphSameAsTable"]


def mc(chk, name, N, sing, slacks, weights, timeout=900):
    cfg = chk.wd / f"MC_Normalize_{name}.cfg"
    vlib.write_cfg(cfg, constants={"N": N, "SingVals": "<- " + sing, "Slacks": "<- " + slacks, "Weights": "<- " + weights, "DoGraphs": True},
                   invariants=INV)
    chk.model_check("MC_Normalize", cfg.name, cfg_path=cfg, timeout=timeout)


def run(chk, args):
    import json
    chk.rule = ("one normalisation (+ de-normalisation, + tabulated twin for graph games) of the real code per trace; exact integer/dyadic/additive/negative games and "
                "every registered generator family; distinct_nontrivial = traces whose game is not identically zero")
    chk.assumptions = ["float families are compared on a 2^-20 grid with a tolerance growing with the condition number scale/|surplus| "
                       "(trivial beyond 2^26); a surplus within 2n*2^-52*scale of zero must normalise to the zero game",
                       "'accepted as superadditive' = the generator families' own output (they assert it) and lattice games"]
    q = chk.tier == "quick"
    mc(chk, "n3", 3, "Vm2to2", "V0to2", "V0to2")
    mc(chk, "n4", 4, "V0to1" if q else "Vm1to1", "V0to1", "V0to1" if q else "V0to2", timeout=3000)
    fams = json.loads((vlib.VERIF / "harness" / "families.json").read_text())["all"]
    summ = vlib.run_driver("drv_normalize", ["--out", str(chk.wd / "nm"), "--seed", str(chk.seed), "--ns", "1,2,3,4,5" if q else "1,2,3,4,5,6,7",
                                             "--exact", str(36 if q else 240), "--families", ",".join(fams), "--seeds", str(3 if q else 20)], chk.wd)
    for f in summ["files"]:
        validate_file(chk, Path(f["path"]), f["n"], {"C15"}, "normalize", spec="Trace_Normalize")
        chk.traces += f["traces"]
        chk.evaluations += f["events"]
        data = json.loads(Path(f["path"]).read_text())
        chk.distinct_nontrivial += sum(1 for T in data["traces"] if any(T["v"]))
        if len(chk.samples) < 4:
            chk.samples.append({"n": f["n"], **f["sample"]})
    chk.notes["traces_dropped_outside_grid"] = summ.get("skipped", 0)
