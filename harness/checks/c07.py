"""C07 — more information never hurts: intervals shrink, every gap is non-increasing."""
from common_bounds import mc_bounds, validate_bounds_traces

LEVEL = "model_checking"


def run(chk, args):
    chk.rule = ("distinct (trace, knowledge set) pairs at compute events with an unknown coalition along reveal paths; all four gap functions "
                "of the real code logged as certified integer intervals of their numerators")
    chk.assumptions = ["l2 is compared through its square; exploitability through n! times its value (exact integer on dyadic games)",
                       "every lattice edge for n<=3 (quick) / n<=4 (thorough) in the model; sampled reveal paths of the real code for n<=6"]
    q = chk.tier == "quick"
    mc_bounds(chk, "SA3", N=3, cls="SA", sing="m1to1", slacks="0to2", computers={"sa", "sac"}, reps={0}, maxchg=1,
              allow_reset=True, tight=False, edges=True, invariants=["EdgesShrink"])
    mc_bounds(chk, "SAM3", N=3, cls="SAM", sing="m3to0", slacks="m3to0", computers={"sam"}, reps={0, 1, 2}, maxchg=1,
              allow_reset=True, tight=False, edges=True, invariants=["EdgesShrink"])
    if not q:
        mc_bounds(chk, "SA4", N=4, cls="SA", sing="zero", slacks="0to1", computers={"sac"}, reps={0}, maxchg=1,
                  allow_reset=False, tight=False, edges=True, invariants=["EdgesShrink"], timeout=5400)
    validate_bounds_traces(chk, [
        {"family": "paths_sa", "ns": "3,4,5" if q else "3,4,5,6", "count": 25 if q else 150, "length": 10, "gaps": 1},
        {"family": "paths_sam", "ns": "3,4", "count": 15 if q else 100, "length": 10, "gaps": 1, "reps": "0,1,3"},
        {"family": "sa", "ns": "3,4", "count": 15 if q else 100, "length": 12, "gaps": 1},
        {"family": "float_sa", "ns": "3,4,5", "count": 12 if q else 80, "length": 10, "gaps": 1},
        {"family": "float_sam", "ns": "3,4", "count": 10 if q else 60, "length": 10, "gaps": 1, "reps": "0,2"},
        # player counts beyond 6: 2^n passes 64 (seeds C04-d, C08-d: a 64-bit key over coalitions silently wraps there)
        {"family": "paths_sa", "ns": "7", "count": 3 if q else 16, "length": 10, "gaps": 1},
        {"family": "paths_sam", "ns": "7", "count": 2 if q else 12, "length": 8, "gaps": 1, "reps": "0,1"},
    ])
