"""C10 — every offered game generator runs and yields a game of its assumed class."""
import json
from pathlib import Path

import vlib
from common_bounds import validate_file

LEVEL = "exploration"


def run(chk, args):
    chk.rule = ("every key of the generator registry except 'convex' x player counts x seeds, two identically seeded calls each; a case is distinct by "
                "(name, n, seed) and non-trivial when the returned game is not identically zero")
    chk.assumptions = ["seeds are sampled (VERIF_SEED shifts the window), not exhausted: the specification contributes the contract table, the class predicates and "
                       "the determinism state machine (weakest use of the technique in this design)",
                       "class membership is judged on a 2^-16 grid with 2 units tolerance (the library's own relative tolerance is far below one unit)"]
    q = chk.tier == "quick"
    chk.model_check("MC_Generators", "MC_Generators.cfg")
    summ = vlib.run_driver("drv_generators", ["--out", str(chk.wd / "gen"), "--seed", str(chk.seed), "--ns", "3,4,5,6" if q else "3,4,5,6,7,8",
                                              "--seeds", "96,48,12,6,3" if q else "400,240,80,40,30,20"], chk.wd, timeout=3400)
    for f in summ["files"]:
        validate_file(chk, Path(f["path"]), f["n"], {"C10"}, "generators", spec="Trace_Generators")
        chk.traces += f["traces"]
        chk.evaluations += f["events"]
        data = json.loads(Path(f["path"]).read_text())
        chk.distinct_nontrivial += sum(1 for T in data["traces"] if any(T["v"]))
        if len(chk.samples) < 4:
            chk.samples.append({"n": f["n"], **f["sample"]})
    chk.notes["registry_names"] = summ["names"]
