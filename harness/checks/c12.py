"""C12 — evaluate() records true trajectories; results independent of parallelism."""
from pathlib import Path

import vlib
from common_bounds import validate_file

LEVEL = "model_checking"


def mc(chk, name, R, procs, mode, expect=None, invariants=("DistinctDraws", "SameGamesForAllP"), per_episode=False):
    cfg = chk.wd / f"MC_Evaluate_{name}.cfg"
    vlib.write_cfg(cfg, constants={"R": R, "Procs": set(procs), "Mode": mode, "StepsPerEpisode": 2, "SolverPerEpisode": per_episode},
                   invariants=list(invariants))
    chk.model_check("MC_Evaluate", cfg.name, cfg_path=cfg, expect_violation=expect)


def run(chk, args):
    chk.rule = ("one call of evaluate() through ModelInstance per trace (solver x generator x seed x repetition count x worker-process count), the hidden game of every "
                "repetition recorded inside the worker; distinct_nontrivial = repetitions with at least one step")
    chk.assumptions = ["all pool schedules / chunkings on the model (R<=6 repetitions, P<=4 workers); on the real pool the process counts 1..4 (quick) / 1..16 (thorough) are run "
                       "and compared (schedules cannot be forced)",
                       "independence of draws is judged on continuous-valued generators (equal games = a replay, not a coincidence)",
                       "the model's 'worker_reset' mode (hidden game drawn in the worker from the batch's pickled generator copy) is kept as a self-test: TLC must find it violating"]
    q = chk.tier == "quick"
    mc(chk, "parent_R5", 5, {1, 2, 3}, "parent_draw")
    mc(chk, "selftest_worker_reset", 3, {1, 2}, "worker_reset", expect="SameGamesForAllP")
    # open finding D12b on the model: the random solver's stream is copied once per chunk, so it depends on the chunking;
    # a solver restarting its stream per episode would not
    mc(chk, "D12b_solver_stream", 3, {1, 2}, "parent_draw", expect="SolverStreamSameForAllP", invariants=("SolverStreamSameForAllP",))
    mc(chk, "solver_per_episode", 4, {1, 2, 3}, "parent_draw", invariants=("DistinctDraws", "SameForAllP"), per_episode=True)
    if not q:
        mc(chk, "parent_R6P4", 6, {1, 2, 3, 4}, "parent_draw")
        mc(chk, "parent_R9", 9, {2}, "parent_draw")
    summ = vlib.run_driver("drv_evaluate", ["--out", str(chk.wd / "ev"), "--seed", str(chk.seed), "--ns", "3,4" if q else "3,4,5",
                                            "--configs", str(16 if q else 64), "--procs", "1,2,3,4" if q else "1,2,3,4,5,6,8,16",
                                            "--reps", "1,3,12" if q else "1,3,12,24"], chk.wd, timeout=3400)
    import json
    for f in summ["files"]:
        validate_file(chk, Path(f["path"]), f["n"], {"C12"}, "evaluate", spec="Trace_Evaluate")
        chk.traces += f["traces"]
        chk.evaluations += f["events"]
        data = json.loads(Path(f["path"]).read_text())
        chk.distinct_nontrivial += sum(1 for T in data["traces"] for r in T["reps"] if r["taken"] >= 1)
        if len(chk.samples) < 4:
            chk.samples.append({"n": f["n"], **f["sample"]})
