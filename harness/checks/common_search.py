from pathlib import Path

import vlib
from common_bounds import validate_file


def mc_search(chk, name, *, N, game, comp, rep, gap, maxsize, procs, extra=frozenset(), invariants=None, timeout=1200):
    cfg = chk.wd / f"MC_Search_{name}.cfg"
    vlib.write_cfg(cfg, constants={"N": N, "GameIx": game, "Comp": comp, "Rep": rep, "Gap": gap, "MaxSize": maxsize, "Procs": set(procs),
                                   "ExtraKnown": set(extra)},
                   invariants=invariants or ["EnumerationIsExactlyTheRevealSets", "ChunksPartitionTasks", "EachOnce", "ResultIsGap", "NeverTwice"])
    return chk.model_check("MC_Search", cfg.name, cfg_path=cfg, timeout=timeout)


def validate_search(chk, what, ns, count, procs):
    summ = vlib.run_driver("drv_search", ["--out", str(chk.wd / "se"), "--seed", str(chk.seed), "--what", what, "--ns", ns, "--count", str(count),
                                          "--procs", procs], chk.wd, timeout=3000)
    for f in summ["files"]:
        validate_file(chk, Path(f["path"]), f["n"], {chk.prop}, what, spec="Trace_Search")
        chk.traces += f["traces"]
        chk.evaluations += f["events"]
        chk.distinct_nontrivial += f["traces"]
        if len(chk.samples) < 5:
            chk.samples.append({"n": f["n"], **f["sample"]})
