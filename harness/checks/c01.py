"""C01 — superadditive bounds always contain the true game."""
from common_bounds import mc_bounds, validate_bounds_traces

LEVEL = "model_checking"
INV = ["SoundInv", "OrderedInv", "KnownExactInv"]
ACTS = ["Grow", "Start", "Reveal", "Unreveal", "ResetTo", "ComputeAct"]


def run(chk, args):
    chk.rule = ("distinct (trace, knowledge set) pairs at compute events with at least one unknown coalition; "
                "hidden games: random integer / dyadic / negative / zero-normalised superadditive games and float generator families")
    chk.assumptions = [
        "TLC explores the specification exhaustively only for the stated small constants (n=3 full history graph; n=4 reduced)",
        "float (quant-mode) traces are compared on a 2^-16 grid with a tolerance of one grid unit",
    ]
    # M: every SA3 lattice game x both computers x every history (<= 2 knowledge changes between computes, bulk resets)
    mc_bounds(chk, "SA3", N=3, cls="SA", sing="m1to1", slacks="0to2", computers={"sa", "sac"}, reps={0}, maxchg=2,
              allow_reset=True, tight=False, edges=False, invariants=INV, required_actions=ACTS)
    if chk.tier == "thorough":
        mc_bounds(chk, "SA4", N=4, cls="SA", sing="zero", slacks="0to1", computers={"sa", "sac"}, reps={0}, maxchg=1,
                  allow_reset=False, tight=False, edges=False, invariants=INV, timeout=3000)
        mc_bounds(chk, "SA4s", N=4, cls="SA", sing="m1and1", slacks="zero", computers={"sa", "sac"}, reps={0}, maxchg=2,
                  allow_reset=False, tight=False, edges=False, invariants=INV, timeout=3000)
    # T: real game objects through random histories
    q = chk.tier == "quick"
    validate_bounds_traces(chk, [
        {"family": "sa", "ns": "2,3,4,5" if q else "2,3,4,5,6", "count": 40 if q else 300, "length": 14 if q else 20},
        {"family": "float_sa", "ns": "3,4,5" if q else "3,4,5,6", "count": 20 if q else 150, "length": 12},
    ])
