"""C06 — the Shapley value is the average marginal contribution over all orderings."""
from common_shapley import mc_shapley, validate_shapley

LEVEL = "model_checking"
INV = ["PermEqWeighted", "Efficiency", "Symmetry", "NullPlayerZero"]


def run(chk, args):
    chk.rule = ("one evaluation of the real entry points per trace; all unit games e_S (a basis of the games with v(empty)=0) for each n, plus random "
                "integer / dyadic / negative / null-player / relabelled / combined games; every trace is distinct by construction")
    chk.assumptions = ["'for all real games' is reached through linearity: both sides are linear in the game and are compared on a basis (n<=6 against the n! "
                       "orderings on the real code and in the model); no computer-algebra proof is produced",
                       "float results are bound by certified integer intervals of n!*scale*value (exact to the unit on dyadic games)"]
    q = chk.tier == "quick"
    for n in ([2, 3, 4, 5] if q else [2, 3, 4, 5, 6]):      # n=7 (5040 orderings x 127 unit games) exceeded 50 min under load: left out
        mc_shapley(chk, f"basis{n}", n, "basis", True, INV, timeout=3000)
    mc_shapley(chk, "small3", 3, "small", True, INV)
    for n in ([6, 7, 8] if q else [8, 9, 10]):
        mc_shapley(chk, f"weighted{n}", n, "basis", False, ["Efficiency", "NullPlayerZero"] + (["Symmetry"] if n <= 8 else []), timeout=3000)
    validate_shapley(chk, "shapley", "2,3,4,5,6,7,8" if q else "2,3,4,5,6,7,8,9,10", 25 if q else 200, 7 if q else 10)
    if q:
        validate_shapley(chk, "shapley", "9", 4, 7)     # a few games beyond 8 players in the quick tier too
    validate_shapley(chk, "shapley", "11" if q else "11,12", 3 if q else 8, 7)     # 2^n beyond 1024: sparse games
