"""C09 — the reveal-one-coalition environment reflects exactly what was revealed."""
from common_gym import ALL_GAPS, mc_gym, replay_gym_behaviours, validate_gym_traces

LEVEL = "model_checking"
INV = ["KnownExactlyChosen", "KnownCarryHidden", "HiddenIsLastDraw", "Fresh", "RewardNonPositive", "ObsInUnitRange",
       "NothingLeftIsDone", "DegenerateIffZeroGap", "UndoRestores"]
FAMILIES = ("factory,predictible_factory,factory_one,factory_square,factory_exp,factory_fixed,factory_cheerleader_next,noisy_factory,"
            "noisy_factory_square,graph,graph_beta_2_3,graph_poiss_1,graph_random,graph_ws_connected,graph_internet,graph_geometric,"
            "graph_geographical_treshold,graph_cycle,xos,xos_one,xos2,xos12,xos_norm_additive,xs,oxs,xs2,xs6,k_budget_generator,covg_fn_generator")
QUICK_FAMILIES = "factory,noisy_factory,graph_random,graph_cycle,graph_beta_2_3,xos,xs,xs2,xs3,oxs,k_budget_generator,covg_fn_generator,predictible_factory,factory_cheerleader_next"
CLASSES = "superadditive,superadditive_cached,sam_apx_1,sam_apx_10"


def run(chk, args):
    chk.rule = ("events = public calls (construct/reset/step/unstep) on real environments with returned values and full public state logged; "
                "distinct_nontrivial = distinct (trace, operation, knowledge set) situations")
    chk.assumptions = ["exhaustive in the model for n=3 (all action sequences, 2 resets) and bounded for n=4; real environments sampled for n=3..5",
                       "float generator families are compared on a 2^-16 grid; 'all intervals degenerate' is read off the raw table by the driver there",
                       "observations of nearly-additive float games (|surplus| < 64 grid units) are left to C15"]
    q = chk.tier == "quick"
    mc_gym(chk, "SA3", N=3, gameset="SA", comps={"sa", "sac"}, reps={0}, gaps=ALL_GAPS, budgets="BudgetsAll", max_resets=2, max_ops=8,
           invariants=INV, properties=["ResetDrawsNew"])
    mc_gym(chk, "SAM3", N=3, gameset="SAM", comps={"sam", "sac"}, reps={0, 1, 2}, gaps=ALL_GAPS, budgets="BudgetsAll", max_resets=2, max_ops=8,
           invariants=INV, properties=["ResetDrawsNew"])
    mc_gym(chk, "SA4", N=4, gameset="SA", comps={"sac"} if q else {"sa", "sac"}, reps={0}, gaps={"exploitability", "l1_norm"} if q else ALL_GAPS,
           budgets="BudgetsNone" if q else "BudgetsAll", max_resets=1, max_ops=3 if q else 5, invariants=INV, timeout=3000)
    # liveness, under weak fairness of "reveal something": an episode of reveals eventually reports done, and done is stable
    chk.model_check("MC_Gym", "MC_Gym_live.cfg")
    validate_gym_traces(chk, [
        {"kind": "walk", "ns": "3,4" if q else "3,4,5", "count": 24 if q else 120, "classes": CLASSES},
        {"kind": "walk", "source": "family", "ns": "3,4" if q else "3,4,5", "count": 56 if q else 29 * 8,
         "families": QUICK_FAMILIES if q else FAMILIES + ",xs2,xs3", "classes": CLASSES},
        {"kind": "walk", "source": "family", "ns": "3,4,5", "count": 24 if q else 96, "gaps": "exploitability",
         "families": "xs2,xs3,xs6,oxs,noisy_factory,noisy_factory_square", "classes": CLASSES},
        # five players with the SAM approximations on integer SAM families (exact ties: intervals become degenerate before they are revealed)
        {"kind": "walk", "source": "family", "ns": "5", "count": 12 if q else 48, "gaps": "l1_norm,linf_norm",
         "families": "k_budget_generator,covg_fn_generator", "classes": "sam_apx_1,sam_apx_10"},
        # 2^n beyond 64 and 128: short episodes (fixed-width integer types and bit-mask keys change behaviour there)
        {"kind": "walk", "ns": "7,8", "count": 3 if q else 12, "classes": "superadditive_cached,sam_apx_1"},
    ])
    replay_gym_behaviours(chk, "SA3", {"N": 3, "gameset": "SA", "comps": {"sa", "sac"}, "reps": {0}}, 40 if q else 300, 12)
    replay_gym_behaviours(chk, "SAM3", {"N": 3, "gameset": "SAM", "comps": {"sam"}, "reps": {0, 1, 2}}, 20 if q else 200, 12)
    replay_gym_behaviours(chk, "SA4", {"N": 4, "gameset": "SA", "comps": {"sa", "sac"}, "reps": {0}}, 20 if q else 200, 16)
