"""X02 (not a listed property; specification growth): GraphCooperativeGame algebra and equality between game objects."""
from pathlib import Path

import vlib
from common_bounds import validate_file

LEVEL = "model_checking"


def run(chk, args):
    chk.rule = ("one graph game (integer weight matrix with junk below the diagonal) per trace: values, list form, negation, addition, copy, "
                "equality with graph games / tabulated games / non-games; plus recorded histories of IncompleteCooperativeGame objects with the "
                "equality of every pair of live objects after every call; traces distinct by construction")
    chk.assumptions = ["outside the listed properties: kept as coverage growth of the specification (DESIGN 11.6)"]
    q = chk.tier == "quick"
    for name, n, w in (("n2", 2, "Wm102"), ("n3", 3, "W01")) + ((("n3w", 3, "Wm101"),) if not q else ()):
        cfg = chk.wd / f"MC_GraphGame_{name}.cfg"
        vlib.write_cfg(cfg, constants={"N": n, "Weights": "<- " + w},
                       invariants=["LowerTriangleIgnored", "EmptyAndSingletonsZero", "NegCommutes", "AddCommutes", "NonNegativeIsSuperadditive"])
        chk.model_check("MC_GraphGame", cfg.name, cfg_path=cfg, timeout=1500)
    summ = vlib.run_driver("drv_graph", ["--out", str(chk.wd / "gg"), "--seed", str(chk.seed), "--ns", "2,3,4,5" if q else "2,3,4,5,6,7",
                                         "--count", str(30 if q else 200)], chk.wd)
    for f in summ["files"]:
        validate_file(chk, Path(f["path"]), f["n"], {"X02"}, "graph", spec="Trace_GraphGame")
        chk.traces += f["traces"]
        chk.evaluations += f["events"]
        chk.distinct_nontrivial += f["traces"]
        chk.samples.append(f["sample"])
    # equality of IncompleteCooperativeGame objects: the histories of C17's driver, judged by the X02 clauses of Trace_ICGame
    summ = vlib.run_driver("drv_game", ["--out", str(chk.wd / "ge"), "--seed", str(chk.seed), "--ns", "1,2,3", "--count", str(12 if q else 80),
                                        "--length", "16"], chk.wd)
    for f in summ["files"]:
        validate_file(chk, Path(f["path"]), f["n"], {"X02"}, "game-equality", spec="Trace_ICGame")
        chk.traces += f["traces"]
        chk.evaluations += f["events"]
        chk.distinct_nontrivial += f["traces"]
