"""C03 — cached and reference superadditive bound computers are interchangeable."""
from common_bounds import mc_bounds, validate_bounds_traces

LEVEL = "model_checking"


def run(chk, args):
    chk.rule = ("distinct (trace, knowledge set) pairs at compute events with an unknown coalition; both computers run as twin objects "
                "through the same history, traces of all player counts advanced in ONE interpreter in random interleaving")
    chk.assumptions = ["exhaustive only within the model constants (n<=3 lattices, all tables incl. stale rows); n=4..8 by recorded traces",
                       "bit-identity is demanded on exactly representable (integer/dyadic) games, one grid unit otherwise"]
    q = chk.tier == "quick"
    # M: on every reachable table (stale rows included) the two folds agree; games of any class
    mc_bounds(chk, "ANY3", N=3, cls="ANY", sing="m1to1", slacks="0to2", computers={"sa", "sac"}, reps={0}, maxchg=2,
              allow_reset=True, tight=False, edges=False, invariants=["Interchangeable"])
    mc_bounds(chk, "SA3", N=3, cls="SA", sing="m1to1", slacks="0to2", computers={"sa", "sac"}, reps={0}, maxchg=2,
              allow_reset=True, tight=False, edges=False, invariants=["Interchangeable"])
    if not q:
        mc_bounds(chk, "SA4", N=4, cls="SA", sing="zero", slacks="0to1", computers={"sa", "sac"}, reps={0}, maxchg=1,
                  allow_reset=False, tight=False, edges=False, invariants=["Interchangeable"], timeout=5400)
    chk.model_check("MC_Cache", "MC_Cache.cfg")
    validate_bounds_traces(chk, [
        {"family": "cached", "ns": "2,3,4,5,6" if q else "2,3,4,5,6,7,8", "count": 20 if q else 80, "length": 12 if q else 16, "interleave": 1},
        {"family": "float_sa", "ns": "3,4,5,6", "count": 12 if q else 80, "length": 10, "interleave": 1},
        # player counts beyond 6: 2^n passes 64 (seeds C04-d, C08-d: a 64-bit key over coalitions silently wraps there)
        {"family": "cached", "ns": "7,8", "count": 4 if q else 10, "length": 12, "interleave": 1},
        # 2^n = 512 (seed C01-e: a uint8 cast loses the players from 8 upwards); n = 10 in the thorough tier
        {"family": "cached", "ns": "9" if q else "9,10", "count": 3 if q else 6, "length": 6, "interleave": 1},
    ])
