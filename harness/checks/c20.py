"""C20 — saving results is all-or-nothing under a crash."""
import json
from pathlib import Path

import vlib
from common_bounds import validate_file

LEVEL = "fault_enumeration"


def fs_model(chk, program_file: Path, label: str, expect_violation=None):
    res = vlib.run_tlc("FS", vlib.SPEC / "FS.cfg", chk.wd, env={"PROGRAM_FILE": str(program_file)}, timeout=600, workers=4)
    chk.mc_runs.append({"spec": "FS", "cfg": label, "generated": res.generated, "distinct": res.distinct, "violated": res.violated})
    chk.states += res.distinct
    chk.transitions += res.generated
    if res.timed_out or (not res.ok and not res.violated):
        raise vlib.MachineryError(f"FS model failed on {label}:\n{res.error_text()}")
    if expect_violation is not None:
        if bool(res.violated) != expect_violation:
            raise vlib.MachineryError(f"FS model self-test: reference program {label} should {'violate' if expect_violation else 'satisfy'} AtomicOrNothing")
        return res
    return res


def run(chk, args):
    chk.rule = ("one forked child per (scenario, file-operation index, crash kind in {process death, interrupting exception}); a case is distinct by that "
                "triple and non-trivial when the fault is injected strictly inside the save (after the first, before the last operation)")
    chk.assumptions = ["faults are injected at Python-level file operations (io and os entry points wrapped in the child); the points in between "
                       "(e.g. between flush and close) are covered by TLC on the FS model running the OBSERVED operation sequence",
                       "process death loses user-space buffers only; power loss / fsync durability is out of scope",
                       "a leftover scratch file after an interrupted save is allowed"]
    q = chk.tier == "quick"
    # the model can tell good from bad save algorithms (self-test of the FS model)
    P = vlib.SPEC / "programs"
    fs_model(chk, P / "inplace.json", "reference:in-place", expect_violation=True)
    fs_model(chk, P / "temp_then_replace.json", "reference:temp-then-replace", expect_violation=False)
    fs_model(chk, P / "replace_before_close.json", "reference:replace-before-close", expect_violation=True)
    fs_model(chk, P / "unlink_then_rename.json", "reference:unlink-then-rename", expect_violation=True)
    fs_model(chk, P / "temp_then_replace_stale_scratch.json", "reference:temp-then-replace with a stale scratch file", expect_violation=False)
    fs_model(chk, P / "keep_then_replace_stale_scratch.json", "reference:scratch opened without truncation, stale scratch file", expect_violation=True)
    summ = vlib.run_driver("drv_crash", ["--out", str(chk.wd / "cr"), "--seed", str(chk.seed), "--histories", "0,1,3" if q else "0,1,2,3,4,5,6",
                                         "--sizes", "1x1,4x3" if q else "1x1,2x2,4x3,8x5,16x8"], chk.wd, timeout=3000)
    f = summ["files"][0]
    data = json.loads(Path(f["path"]).read_text())
    # M on the observed programs: every crash point TLC can place, including those without a Python-level hook
    seen = set()
    for T in data["traces"]:
        if not T["program"]:
            continue
        key = json.dumps([T["had_old"], T["program"]])
        if key in seen:
            continue
        seen.add(key)
        pf = chk.wd / f"program_{T['tid']}.json"
        pf.write_text(json.dumps({"had_old": T["had_old"], "leftover": 0, "ops": T["program"]}))
        res = fs_model(chk, pf, f"observed:tid{T['tid']}")
        if not res.violated:
            # the same program started over the leftovers of an earlier interrupted save (a longer stale scratch file)
            nwrites = sum(1 for o in T["program"] if o["op"] == "write")
            pf.write_text(json.dumps({"had_old": T["had_old"], "leftover": nwrites + 2, "ops": T["program"]}))
            res = fs_model(chk, pf, f"observed-after-interrupted-save:tid{T['tid']}")
        if res.violated:
            rp = chk.write_replay({"kind": "model-on-observed-program", "violated": res.violated, "program": T["program"][:6] + ["..."] + T["program"][-4:],
                                   "had_old": T["had_old"], "tlc_output": res.error_text()})
            chk.violation({"kind": "model", "clause": res.violated[0], "what": "the observed sequence of file operations admits a crash that leaves neither the old nor the new file",
                           "first_ops": [o["op"] + ":" + o["path"] for o in T["program"][:3]]}, rp)
    # advisory (never changes the verdict): the FS model's PREDICTION of the post-crash file class for every injected fault is compared
    # with what the real run left on disk -- this is what binds the file-system model to the operating system
    agree = differ = 0
    drift = []
    done_keys = set()
    for T in data["traces"]:
        if not T["program"]:
            continue
        key = json.dumps([T["had_old"], T["program"]])
        if key in done_keys:
            continue
        done_keys.add(key)
        pf = chk.wd / f"pred_{T['tid']}.json"
        pf.write_text(json.dumps({"had_old": T["had_old"], "leftover": 0, "ops": T["program"]}))
        res = vlib.run_tlc("FS", vlib.SPEC / "FS_pred.cfg", chk.wd, env={"PROGRAM_FILE": str(pf)}, timeout=600, workers=1)
        if not res.ok:
            drift.append({"tid": T["tid"], "problem": "prediction run failed"})
            continue
        chk.states += res.distinct
        chk.transitions += res.generated
        pred = {(p[1], p[2]): p[3] for p in vlib.extract_tagged(res.out, "PRED")}
        for e in T["events"]:
            want = pred.get((e["k"], e["kind"]))
            if want is None:
                continue
            if want == e["cls"]:
                agree += 1
            else:
                differ += 1
                if len(drift) < 10:
                    drift.append({"tid": T["tid"], "k": e["k"], "kind": e["kind"], "op": e["op"], "model": want, "observed": e["cls"]})
    chk.notes["fs_model_prediction_vs_observed"] = {"agree": agree, "differ": differ, "model_drift": differ > 0, "examples": drift}
    validate_file(chk, Path(f["path"]), 1, {"C20"}, "fault-injection", spec="Trace_Crash")
    chk.traces += f["traces"]
    chk.evaluations += summ["events"]
    chk.distinct_nontrivial = sum(1 for T in data["traces"] for e in T["events"] if 1 < e["k"] <= T["nops"])
    chk.samples.append(f["sample"])
    chk.exhaustive = True
    chk.notes["observed_programs_model_checked"] = len(seen)
