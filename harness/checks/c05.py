"""C05 — exploitability = summed best-case Shapley gain = binomially weighted gap."""
from common_shapley import mc_shapley, validate_shapley

LEVEL = "model_checking"


def run(chk, args):
    chk.rule = ("one evaluation of compute_exploitability (or of the per-player max-gain Shapley values against a completion) per trace; all unit bound "
                "vectors for each n plus random integer/dyadic/negative/inverted bound vectors and completions inside the box")
    chk.assumptions = ["the identity is asserted for bound vectors with the empty coalition at 0 and the grand coalition known (outside that it is mathematically false)",
                       "'proved symbolically for n=2..8' is met by exhaustive enumeration of a basis of the (linear) input space, not by computer algebra",
                       "domination: all corners of all boxes on a {0,1} lattice for n=3 in the model; sampled completions n<=6 on the real code"]
    q = chk.tier == "quick"
    for n in ([2, 3, 4, 5, 6] if q else [2, 3, 4, 5, 6, 7, 8]):
        mc_shapley(chk, f"basis{n}", n, "basis", False, ["Identity"], timeout=3000)
    mc_shapley(chk, "box2", 2, "box", False, ["Identity", "NonNegative", "ZeroIffDegenerate", "Dominates"])
    mc_shapley(chk, "box3", 3, "box", False, ["Identity", "NonNegative", "ZeroIffDegenerate", "Dominates"])
    validate_shapley(chk, "expl", "2,3,4,5,6,7" if q else "2,3,4,5,6,7,8", 30 if q else 250, 6 if q else 8)
    # 9 and 10 players (2^n beyond 256): sparse bound vectors, numerators inside 32 bits
    validate_shapley(chk, "expl", "9,10", 10 if q else 60, 6)
