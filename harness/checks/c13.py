"""C13 — built-in solvers pick valid actions by their rule and leave the env untouched; expected-greedy search."""
from common_gym import ALL_GAPS, mc_gym, validate_gym_traces

LEVEL = "model_checking"
FAMS = "factory,noisy_factory,noisy_factory_square,graph_random,graph_geometric,xos,xs,oxs,k_budget_generator,covg_fn_generator"


def run(chk, args):
    chk.rule = ("events = solver queries (preceded by a step/unstep probe of every valid action through the public API, which yields the observed "
                "reward ranks) on real environments; distinct_nontrivial = distinct (trace, operation, knowledge set) situations")
    chk.assumptions = ["ties are judged on the float rewards the environment actually returns (dense ranks), exactly as the solver's own == does",
                       "model: undo (step then unstep) restores the environment at every reachable state, n=3 exhaustive, n=4 bounded"]
    q = chk.tier == "quick"
    mc_gym(chk, "SA3", N=3, gameset="SA", comps={"sa", "sac"}, reps={0}, gaps=ALL_GAPS, budgets="BudgetsAll", max_resets=2, max_ops=8,
           invariants=["UndoRestores", "Fresh"])
    mc_gym(chk, "SAM3", N=3, gameset="SAM", comps={"sam"}, reps={0, 1, 2}, gaps=ALL_GAPS, budgets="BudgetsNone", max_resets=2, max_ops=8,
           invariants=["UndoRestores", "Fresh"])
    mc_gym(chk, "SA4", N=4, gameset="SA", comps={"sac"}, reps={0}, gaps={"exploitability"}, budgets="BudgetsNone", max_resets=1, max_ops=3 if q else 5,
           invariants=["UndoRestores"], timeout=3000)
    validate_gym_traces(chk, [
        {"kind": "solve", "ns": "3,4", "count": 16 if q else 96, "classes": "superadditive,superadditive_cached,sam_apx_1"},
        {"kind": "solve", "source": "family", "ns": "3,4", "count": 16 if q else 80, "families": FAMS,
         "classes": "superadditive_cached,sam_apx_1"},
    ])
    if not q:     # n = 5: 25 actions probed per query, expensive to validate -- a smaller sample
        validate_gym_traces(chk, [{"kind": "solve", "ns": "5", "count": 20, "classes": "superadditive,superadditive_cached,sam_apx_1"}], tag="gy5")
    # expected-greedy search (run/greedy.py) against the exhaustive optimum
    from common_search import validate_search
    validate_search(chk, "greedy", "3,4", 8 if q else 60, "1,2,4")
