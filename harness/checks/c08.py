"""C08 — bounds depend only on current knowledge: idempotent, order-free, undoable."""
from common_bounds import mc_bounds, validate_bounds_traces

LEVEL = "model_checking"
INV = ["CanonicalInv", "Idempotent"]


def run(chk, args):
    chk.rule = ("distinct (trace, knowledge set) pairs at compute events with an unknown coalition; every computed table is compared with "
                "the table the specification computes from the knowledge alone, with a fresh real object, and with a second computation")
    chk.assumptions = ["all paths through the knowledge lattice for n=3 (<=3 knowledge changes between computes) in the model; "
                       "random histories of the real object for n<=6"]
    q = chk.tier == "quick"
    mc_bounds(chk, "ANY3", N=3, cls="ANY", sing="m1to1", slacks="0to2", computers={"sa", "sac", "sam"}, reps={0, 1, 2}, maxchg=2 if q else 3,
              allow_reset=True, tight=False, edges=False, invariants=INV, timeout=5400)
    if not q:
        mc_bounds(chk, "SA3", N=3, cls="SA", sing="m1to1", slacks="0to2", computers={"sa", "sac", "sam"}, reps={0, 1, 2}, maxchg=3,
                  allow_reset=True, tight=False, edges=False, invariants=INV, timeout=5400)
        mc_bounds(chk, "SA4s", N=4, cls="SA", sing="m1and1", slacks="zero", computers={"sa", "sac", "sam"}, reps={0, 2}, maxchg=2,
                  allow_reset=False, tight=False, edges=False, invariants=INV, timeout=5400)
    validate_bounds_traces(chk, [
        {"family": "any", "ns": "2,3,4,5" if q else "2,3,4,5,6", "count": 25 if q else 150, "length": 16 if q else 24},
        {"family": "sa", "ns": "3,4,5", "count": 15 if q else 100, "length": 16},
        {"family": "sam", "ns": "3,4", "count": 10 if q else 80, "length": 14, "reps": "0,1,10"},
        {"family": "float_sa", "ns": "3,4,5", "count": 10 if q else 80, "length": 12},
        {"family": "float_sam", "ns": "3,4", "count": 8 if q else 60, "length": 12, "reps": "1,10"},
        # player counts beyond 6: 2^n passes 64 (seeds C04-d, C08-d: a 64-bit key over coalitions silently wraps there)
        {"family": "any", "ns": "7,8", "count": 3 if q else 16, "length": 12},
        {"family": "sam", "ns": "7", "count": 3 if q else 16, "length": 10, "reps": "0,1,10"},
        # 2^n = 512 (seed C01-e: a uint8 cast loses the players from 8 upwards); n = 10 in the thorough tier
        {"family": "sa", "ns": "9", "count": 3 if q else 8, "length": 6},
    ])
    from common_bounds import replay_bounds_behaviours
    replay_bounds_behaviours(chk, "ANY3", {"N": 3, "cls": "ANY", "sing": "m1to1", "slacks": "0to3", "computers": {"sa", "sac", "sam"}, "reps": {0, 1, 2}, "maxchg": 4},
                             60 if q else 500, 24)
    replay_bounds_behaviours(chk, "ANY4", {"N": 4, "cls": "ANY", "sing": "m1to1", "slacks": "0to3", "computers": {"sa", "sac", "sam"}, "reps": {0, 2}, "maxchg": 4},
                             30 if q else 300, 30)
    # undo through the environment: step then unstep restores table, observation, reward, mask and counter exactly
    from common_gym import ALL_GAPS, mc_gym, validate_gym_traces
    mc_gym(chk, "undoSA3", N=3, gameset="SA", comps={"sa", "sac"}, reps={0}, gaps=ALL_GAPS, budgets="BudgetsNone", max_resets=1, max_ops=8,
           invariants=["UndoRestores"])
    mc_gym(chk, "undoSAM3", N=3, gameset="SAM", comps={"sam"}, reps={0, 1, 2}, gaps={"exploitability"}, budgets="BudgetsNone", max_resets=1, max_ops=8,
           invariants=["UndoRestores"])
    validate_gym_traces(chk, [
        {"kind": "walk", "ns": "3,4", "count": 12 if q else 80, "classes": "superadditive,superadditive_cached,sam_apx_1,sam_apx_10"},
        {"kind": "walk", "source": "family", "ns": "3,4", "count": 10 if q else 60,
         "families": "noisy_factory,graph_random,xos,oxs,covg_fn_generator", "classes": "superadditive,superadditive_cached,sam_apx_1"},
    ])
