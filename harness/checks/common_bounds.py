"""Shared machinery of the checks built on MC_Bounds / Trace_Bounds (C01, C02, C03, C04, C07, C08)."""
from __future__ import annotations

import json
from pathlib import Path

import vlib
from vlib import Check, MachineryError

NAMED = {  # named constant sets defined in MC_Bounds.tla (cfg files cannot hold negative literals)
    "m1to1": "<- Vm1to1", "m1and1": "<- Vm1and1", "zero": "<- Vzero", "m3to0": "<- Vm3to0", "m2to0": "<- Vm2to0",
    "0to2": "<- V0to2", "0to1": "<- V0to1", "0to3": "<- V0to3",
}


def mc_bounds(chk: Check, name: str, *, N: int, cls: str, sing: str, slacks: str, computers: set, reps: set,
              maxchg: int, allow_reset: bool, tight: bool, edges: bool, invariants: list[str], timeout: int = 1200,
              required_actions: list[str] | None = None, brute: bool = False):
    cfg = chk.wd / f"MC_Bounds_{name}.cfg"
    vlib.write_cfg(cfg, constants={
        "N": N, "Class": cls, "SingVals": NAMED[sing], "Slacks": NAMED[slacks], "Computers": set(computers),
        "Reps": set(reps), "MaxChg": maxchg, "AllowReset": allow_reset, "CheckTight": tight, "CheckEdges": edges, "CheckBrute": brute,
    }, invariants=["GeneratedInClass"] + invariants)
    return chk.model_check("MC_Bounds", cfg.name, cfg_path=cfg, timeout=timeout, required_actions=required_actions)


def validate_bounds_traces(chk: Check, families: list[dict], props: set[str] | None = None, tag: str = "tr") -> None:
    """Run drv_bounds for every family, validate every produced file with Trace_Bounds, turn VERDICT lines for
    this check's property into violations (with a replay file holding the failing trace)."""
    props = props or {chk.prop}
    for fam in families:
        args = ["--out", str(chk.wd / tag), "--seed", str(chk.seed), "--family", fam["family"], "--ns", fam["ns"],
                "--count", str(fam.get("count", 20)), "--length", str(fam.get("length", 14)), "--gaps", str(fam.get("gaps", 0)),
                "--reps", fam.get("reps", "0,1,2"), "--interleave", str(fam.get("interleave", 1))]
        summ = vlib.run_driver("drv_bounds", args, chk.wd)
        for f in summ["files"]:
            validate_file(chk, Path(f["path"]), f["n"], props, fam["family"])
            chk.traces += f["traces"]
            chk.evaluations += f["events"]
            if len(chk.samples) < 6:
                s = dict(f["sample"])
                s["family"] = fam["family"]
                s["n"] = f["n"]
                chk.samples.append(s)


MAX_BATCH_BYTES = 12_000_000      # TLC holds a whole batch in memory as TLA+ values (tens of times the JSON size)


def validate_file(chk: Check, path: Path, n: int, props: set[str], family: str, spec: str = "Trace_Bounds") -> list:
    """Validate one batch file; a very large batch is cut into several TLC runs."""
    if path.stat().st_size > MAX_BATCH_BYTES:
        data = json.loads(path.read_text())
        groups, cur, size = [], [], 0
        for T in data["traces"]:
            b = len(json.dumps(T, separators=(",", ":")))
            if cur and size + b > MAX_BATCH_BYTES:
                groups.append(cur)
                cur, size = [], 0
            cur.append(T)
            size += b
        if cur:
            groups.append(cur)
        mine = []
        for gi, g in enumerate(groups):
            part = path.with_name(f"{path.stem}_part{gi}.json")
            part.write_text(json.dumps({"traces": g}, separators=(",", ":")))
            mine += _validate_one(chk, part, n, props, family, spec)
            part.unlink()
        return mine
    return _validate_one(chk, path, n, props, family, spec)


def _validate_one(chk: Check, path: Path, n: int, props: set[str], family: str, spec: str = "Trace_Bounds") -> list:
    cfg = chk.wd / f"{path.stem}.cfg"
    consts = {"N": n, "Props": set(props)} if spec not in ("Trace_Crash", "Trace_Save", "Trace_Regret", "Trace_VecEnv") else {"Props": set(props)}
    vlib.write_cfg(cfg, spec="TraceSpec", constants=consts, postcondition="AllConsumed")
    res = vlib.run_tlc(spec, cfg, chk.wd, env={"TRACE_FILE": str(path)}, timeout=1500)
    if res.timed_out or not res.ok:
        raise MachineryError(f"trace validation failed to run on {path.name}:\n{res.error_text()}")
    chk.states += res.distinct
    chk.transitions += res.generated
    chk.mc_runs.append({"spec": spec, "cfg": f"trace:{family}:n{n}", "generated": res.generated, "distinct": res.distinct,
                        "wall_s": round(res.wall, 1)})
    # vacuity guard: how many recorded events of each kind the clauses of this run were evaluated on
    try:
        for T in json.loads(path.read_text())["traces"]:
            evs = T.get("events")
            if isinstance(evs, list) and evs and isinstance(evs[0], dict):
                for e in evs:
                    chk.count(f"{spec}:{e.get('op', e.get('kind', 'event'))}")
            else:
                chk.count(f"{spec}:{T.get('kind', 'trace')}")
    except Exception:  # noqa: BLE001
        pass
    verdicts = vlib.extract_tagged(res.out, "VERDICT")
    mine = [v for v in verdicts if v[3] == chk.prop]
    if mine:
        data = json.loads(path.read_text())
        by_tid = {t["tid"]: t for t in data["traces"]}
        seen = set()
        for v in mine:
            _, tid, ev, prop, clause, obj = v[:6]
            key = (tid, clause)
            if key in seen:
                continue
            seen.add(key)
            T = by_tid[tid]
            rp = chk.write_replay({"kind": "trace", "spec": spec, "n": n, "family": family, "failing_event": ev,
                                   "clause": clause, "object": obj, "trace": T})
            chk.violation({"kind": "trace", "clause": clause, "family": family, "n": n, "tid": tid, "event": ev,
                           "name": T.get("name", T.get("family", "")), "solver": T.get("solver", ""),
                           "object": T["objs"][obj - 1] if "objs" in T and 1 <= obj <= len(T["objs"]) else obj,
                           "op": (T["events"][ev - 1].get("op") if 1 <= ev <= len(T.get("events", [])) else T.get("kind"))}, rp)
    if spec == "Trace_Bounds":
        count_nontrivial(chk, path)
    return mine


def count_nontrivial(chk: Check, path: Path) -> None:
    data = json.loads(path.read_text())
    seen = set()
    for T in data["traces"]:
        for e in T["events"]:
            if e["op"] == "compute" and 0 in e["tabs"][0]["k"]:
                seen.add((T["tid"], tuple(e["tabs"][0]["k"])))
    chk.distinct_nontrivial += len(seen)


def replay_bounds_behaviours(chk: Check, name: str, consts: dict, num: int, hist_depth: int = 16) -> None:
    """R: behaviours of MC_Bounds generated by TLC's simulator are executed on real game objects (both twin computers of the
    behaviour's choice) and the recorded run is validated against the specification."""
    n = consts["N"]
    cfg = chk.wd / f"sim_{name}.cfg"
    c = {"N": n, "Class": consts["cls"], "SingVals": NAMED[consts["sing"]], "Slacks": NAMED[consts["slacks"]],
         "Computers": set(consts["computers"]), "Reps": set(consts.get("reps", {0})), "MaxChg": consts.get("maxchg", 3),
         "AllowReset": True, "CheckTight": False, "CheckEdges": False, "CheckBrute": False}
    vlib.write_cfg(cfg, constants=c)
    behs = vlib.simulate("MC_Bounds", cfg, chk.wd, num=num, depth=2 ** n + hist_depth, seed=chk.seed + 23, tag=name)
    spec = {"behaviours": []}
    for i, b in enumerate(behs):
        play = [st for st in b if st["stage"] == "play"]
        if len(play) < 2:
            continue
        hid = play[0]["hid"]["__fn__"]
        hidden = [hid[c] for c in range(2 ** n)]
        comp, rep = play[0]["comp"], play[0]["rep"]
        script = []
        for st in play[1:]:
            op = st["last"]["op"]
            if op in ("reveal", "unreveal"):
                script.append({"op": op, "c": st["last"]["c"], "cs": []})
            elif op == "reset":
                kf = st["tab"]["k"]["__fn__"]
                script.append({"op": "reset", "c": 0, "cs": [c for c in range(2 ** n) if kf[c]]})
            elif op == "compute":
                script.append({"op": "compute", "c": 0, "cs": []})
        spec["behaviours"].append({"tid": i + 1, "n": n, "cls": consts["cls"], "hidden": hidden,
                                   "objs": [{"comp": comp, "r": rep}], "script": script})
    src = chk.wd / f"replay_{name}.json"
    src.write_text(json.dumps(spec))
    summ = vlib.run_driver("drv_bounds", ["--out", str(chk.wd / f"rp_{name}"), "--replay", str(src)], chk.wd)
    for f in summ["files"]:
        validate_file(chk, Path(f["path"]), f["n"], {chk.prop}, f"replay-of-TLC-behaviours:{name}")
        chk.traces += f["traces"]
        chk.evaluations += f["events"]
    chk.notes["behaviours_replayed_into_impl"] = chk.notes.get("behaviours_replayed_into_impl", 0) + len(spec["behaviours"])
