"""Shared machinery of the checks built on MC_Bounds / Trace_Bounds (C01, C02, C03, C04, C07, C08)."""
from __future__ import annotations

import json
from pathlib import Path

import vlib
from vlib import Check, MachineryError

NAMED = {  # named constant sets defined in MC_Bounds.tla (cfg files cannot hold negative literals)
    "m1to1": "<- Vm1to1", "m1and1": "<- Vm1and1", "zero": "<- Vzero", "m3to0": "<- Vm3to0", "m2to0": "<- Vm2to0",
    "0to2": "<- V0to2", "0to1": "<- V0to1", "0to3": "<- V0to3",
}


def mc_bounds(chk: Check, name: str, *, N: int, cls: str, sing: str, slacks: str, computers: set, reps: set,
              maxchg: int, allow_reset: bool, tight: bool, edges: bool, invariants: list[str], timeout: int = 1200,
              required_actions: list[str] | None = None, brute: bool = False):
    cfg = chk.wd / f"MC_Bounds_{name}.cfg"
    vlib.write_cfg(cfg, constants={
        "N": N, "Class": cls, "SingVals": NAMED[sing], "Slacks": NAMED[slacks], "Computers": set(computers),
        "Reps": set(reps), "MaxChg": maxchg, "AllowReset": allow_reset, "CheckTight": tight, "CheckEdges": edges, "CheckBrute": brute,
    }, invariants=["GeneratedInClass"] + invariants)
    return chk.model_check("MC_Bounds", cfg.name, cfg_path=cfg, timeout=timeout, required_actions=required_actions)


def validate_bounds_traces(chk: Check, families: list[dict], props: set[str] | None = None, tag: str = "tr") -> None:
    """Run drv_bounds for every family, validate every produced file with Trace_Bounds, turn VERDICT lines for
    this check's property into violations (with a replay file holding the failing trace)."""
    props = props or {chk.prop}
    for fam in families:
        args = ["--out", str(chk.wd / tag), "--seed", str(chk.seed), "--family", fam["family"], "--ns", fam["ns"],
                "--count", str(fam.get("count", 20)), "--length", str(fam.get("length", 14)), "--gaps", str(fam.get("gaps", 0)),
                "--reps", fam.get("reps", "0,1,2"), "--interleave", str(fam.get("interleave", 0))]
        summ = vlib.run_driver("drv_bounds", args, chk.wd)
        for f in summ["files"]:
            validate_file(chk, Path(f["path"]), f["n"], props, fam["family"])
            chk.traces += f["traces"]
            chk.evaluations += f["events"]
            if len(chk.samples) < 6:
                s = dict(f["sample"])
                s["family"] = fam["family"]
                s["n"] = f["n"]
                chk.samples.append(s)


def validate_file(chk: Check, path: Path, n: int, props: set[str], family: str, spec: str = "Trace_Bounds") -> list:
    cfg = chk.wd / f"{path.stem}.cfg"
    vlib.write_cfg(cfg, spec="TraceSpec", constants={"N": n, "Props": set(props)}, postcondition="AllConsumed")
    res = vlib.run_tlc(spec, cfg, chk.wd, env={"TRACE_FILE": str(path)}, timeout=1500)
    if res.timed_out or not res.ok:
        raise MachineryError(f"trace validation failed to run on {path.name}:\n{res.error_text()}")
    chk.states += res.distinct
    chk.transitions += res.generated
    chk.mc_runs.append({"spec": spec, "cfg": f"trace:{family}:n{n}", "generated": res.generated, "distinct": res.distinct,
                        "wall_s": round(res.wall, 1)})
    verdicts = vlib.extract_tagged(res.out, "VERDICT")
    mine = [v for v in verdicts if v[3] == chk.prop]
    if mine:
        data = json.loads(path.read_text())
        by_tid = {t["tid"]: t for t in data["traces"]}
        seen = set()
        for v in mine:
            _, tid, ev, prop, clause, obj = v[:6]
            key = (tid, clause)
            if key in seen:
                continue
            seen.add(key)
            T = by_tid[tid]
            rp = chk.write_replay({"kind": "trace", "spec": spec, "n": n, "family": family, "failing_event": ev,
                                   "clause": clause, "object": obj, "trace": T})
            chk.violation({"kind": "trace", "clause": clause, "family": family, "n": n, "tid": tid, "event": ev,
                           "object": T["objs"][obj - 1] if "objs" in T and obj >= 1 else obj,
                           "op": T["events"][ev - 1]["op"] if ev >= 1 else None}, rp)
    count_nontrivial(chk, path)
    return mine


def count_nontrivial(chk: Check, path: Path) -> None:
    data = json.loads(path.read_text())
    seen = set()
    for T in data["traces"]:
        for e in T["events"]:
            if e["op"] == "compute" and 0 in e["tabs"][0]["k"]:
                seen.add((T["tid"], tuple(e["tabs"][0]["k"])))
    chk.distinct_nontrivial += len(seen)
