"""C16 — the size-aggregated environment is a faithful abstraction of the full one."""
from common_gym import ALL_GAPS, mc_gym, validate_gym_traces

LEVEL = "model_checking"
INV = ["LinMaskIffCandidates", "LinStepIsInnerStep", "KnownExactlyChosen", "Fresh"]
FAMS = "factory,noisy_factory,graph_random,graph_cycle,xos,oxs,k_budget_generator,covg_fn_generator"


def run(chk, args):
    chk.rule = ("events = lin_reset / lin_step(size) calls on the real ICG_Gym_Linear with the inner environment's public state logged before and after; "
                "distinct_nontrivial = distinct (trace, operation, knowledge set) situations")
    chk.assumptions = ["the tie-break among coalitions of the chosen size uses numpy's global RNG and is sampled, not enumerated, on the real code; "
                       "the model checks every allowed candidate", "model exhaustive for n=3, bounded for n=4"]
    q = chk.tier == "quick"
    mc_gym(chk, "SA3", N=3, gameset="SA", comps={"sac"}, reps={0}, gaps={"exploitability"}, budgets="BudgetsAll", max_resets=2, max_ops=8, invariants=INV)
    mc_gym(chk, "SA4", N=4, gameset="SA", comps={"sac"}, reps={0}, gaps={"l1_norm"}, budgets="BudgetsNone", max_resets=1, max_ops=4 if q else 6,
           invariants=INV, timeout=3000)
    validate_gym_traces(chk, [
        {"kind": "linear", "ns": "3,4,5" if q else "3,4,5,6", "count": 20 if q else 120, "classes": "superadditive,superadditive_cached,sam_apx_1"},
        {"kind": "linear", "source": "family", "ns": "3,4,5" if q else "3,4,5,6", "count": 16 if q else 100, "families": FAMS,
         "classes": "superadditive_cached,sam_apx_1"},
        {"kind": "linear", "ns": "7", "count": 3 if q else 12, "classes": "superadditive_cached"},     # short episodes at 2^n = 128
    ])
