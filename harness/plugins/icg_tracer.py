"""pytest plugin (harness side, no change to the repository): records every top-level public call on every
IncompleteCooperativeGame object created while the repository's OWN tests run, in the Trace_ICGame format (one trace per object).
Nested calls (a public method calling another one) are skipped with a depth counter.  Objects whose values leave the exact
domain (non-dyadic floats) or that have more than MAXN players stop being recorded.  Enabled with `-p icg_tracer` and ICG_TRACE_OUT."""
from __future__ import annotations

import json
import os
from fractions import Fraction
from functools import partial

import numpy as np

import incomplete_cooperative.bounds as B
from incomplete_cooperative.game import IncompleteCooperativeGame as G

MAXN = 6
MAXEV = 80
OUT = os.environ.get("ICG_TRACE_OUT")
TRACES = {}          # id(obj) -> trace dict
KEEP = []            # keep objects alive so that ids are not reused
DEPTH = [0]
SCALE = 8


def exact(a):
    out = []
    for x in np.asarray(a, dtype=np.float64).ravel():
        f = Fraction(float(x)) * SCALE
        if f.denominator != 1 or abs(f.numerator) >= 2 ** 29:
            raise ValueError("inexact")
        out.append(int(f.numerator))
    return out


COMPUTER = {}        # id(obj) -> the bounds computer the object was constructed with
NOARG = object()


def snap(g):
    # through the public accessors only (private storage may be refactored); nested calls are not recorded
    DEPTH[0] += 1
    try:
        k = [int(bool(x)) for x in g.are_values_known()]
        lo = exact(g.get_lower_bounds())
        up = exact(g.get_upper_bounds())
    finally:
        DEPTH[0] -= 1
    z = [0] * len(k)
    return {"k": k, "lo": lo, "up": up, "gv_ok": z, "gv": z, "gkv_ok": z, "gkv": z, "gkvs_ok": z, "gkvs": z, "gvs_all": 0, "full": 0,
            "sk": k, "slo": lo, "sup": up}


def computer_name(fn):
    if fn is B.compute_bounds_superadditive:
        return "compute_sa", 0
    if fn is B.compute_bounds_superadditive_cached:
        return "compute_sac", 0
    if isinstance(fn, partial) and fn.func is B.compute_bounds_superadditive_monotone_approx_cached:
        return "compute_sam", int(fn.keywords.get("repetitions", 0))
    return ("compute_none", 0) if fn is NOARG or getattr(fn, "__name__", "") in ("_none_bounds", "_none_bounds_computer") else (None, 0)


def start(obj):
    if obj.number_of_players > MAXN or len(TRACES) > 6000:
        return
    try:
        TRACES[id(obj)] = {"tid": len(TRACES) + 1, "n": obj.number_of_players, "scale": SCALE, "light": 1, "init": [snap(obj)], "events": [], "dead": 0}
        KEEP.append(obj)
    except ValueError:
        pass


def record(obj, op, c=0, x=0, cs=(), xs=(), outcome="ok"):
    t = TRACES.get(id(obj))
    if t is None or t["dead"]:
        return
    if len(t["events"]) >= MAXEV:
        t["dead"] = 1
        return
    try:
        ev = {"op": op, "o": 1, "o2": 0, "c": int(c), "x": exact([x])[0] if not isinstance(x, int) or op not in ("compute_sam",) else int(x),
              "cs": [int(i) for i in cs], "xs": exact(xs) if len(xs) else [], "all": 0, "outcome": outcome, "objs": [snap(obj)]}
        t["events"].append(ev)
    except (ValueError, TypeError):
        t["dead"] = 1


def wrap(name, describe):
    orig = getattr(G, name)

    def w(self, *a, **kw):
        DEPTH[0] += 1
        outcome = "ok"
        try:
            return orig(self, *a, **kw)
        except Exception as ex:
            outcome = type(ex).__name__
            raise
        finally:
            DEPTH[0] -= 1
            if DEPTH[0] == 0:
                try:
                    describe(self, outcome, *a, **kw)
                except Exception:           # the tracer must never disturb the test
                    t = TRACES.get(id(self))
                    if t:
                        t["dead"] = 1
    w.__name__ = name
    setattr(G, name, w)


def ids(coalitions):
    return [c.id for c in coalitions]


def install():
    orig_init = G.__init__

    def init(self, *a, **kw):
        DEPTH[0] += 1
        try:
            orig_init(self, *a, **kw)
        finally:
            DEPTH[0] -= 1
        COMPUTER[id(self)] = a[1] if len(a) > 1 else kw.get("bounds_computer", NOARG)
        if DEPTH[0] == 0:
            start(self)
    G.__init__ = init
    wrap("set_value", lambda s, o, value, coalition: record(s, "set_value", coalition.id, value, outcome=o))
    wrap("unset_value", lambda s, o, coalition: record(s, "unset_value", coalition.id, outcome=o))
    wrap("reveal_value", lambda s, o, value, coalition: record(s, "reveal", coalition.id, value, outcome=o))
    wrap("unreveal_value", lambda s, o, coalition: record(s, "unreveal", coalition.id, outcome=o))

    def d_setvalues(opname):
        def d(s, o, values, coalitions=None):
            vals = list(np.asarray(list(values) if not isinstance(values, np.ndarray) else values, dtype=float).ravel())
            cs = ids(coalitions) if coalitions is not None else list(range(2 ** s.number_of_players))
            if len(cs) != len(set(cs)) or len(vals) != len(cs):
                TRACES[id(s)]["dead"] = 1      # duplicate lists / broadcasting: outside the modelled domain
                return
            record(s, opname, 0, 0, cs, vals, outcome=o)
        return d
    # the bulk operations consume their iterables: materialise them first
    for nm, opname in (("set_values", "set_values"), ("set_known_values", "set_known_values"), ("set_lower_bounds", "set_lower_bounds"),
                       ("set_upper_bounds", "set_upper_bounds")):
        orig = getattr(G, nm)

        def make(orig=orig, opname=opname):
            def w(self, values, coalitions=None):
                vals = list(values) if not isinstance(values, np.ndarray) else values
                cl = list(coalitions) if coalitions is not None else None
                DEPTH[0] += 1
                outcome = "ok"
                try:
                    return orig(self, vals, cl)
                except Exception as ex:
                    outcome = type(ex).__name__
                    raise
                finally:
                    DEPTH[0] -= 1
                    if DEPTH[0] == 0:
                        try:
                            d_setvalues(opname)(self, outcome, vals, cl)
                        except Exception:
                            t = TRACES.get(id(self))
                            if t:
                                t["dead"] = 1
            return w
        setattr(G, nm, make())
    wrap("set_lower_bound", lambda s, o, value, coalition: record(s, "set_lower_bound", coalition.id, value, outcome=o)
         if not s.is_value_known(coalition) else TRACES.get(id(s), {}).__setitem__("dead", 1))
    wrap("set_upper_bound", lambda s, o, value, coalition: record(s, "set_upper_bound", coalition.id, value, outcome=o)
         if not s.is_value_known(coalition) else TRACES.get(id(s), {}).__setitem__("dead", 1))

    def d_compute(s, o):
        op, r = computer_name(COMPUTER.get(id(s)))
        if op is None or o != "ok":
            t = TRACES.get(id(s))
            if t:
                t["dead"] = 1
            return
        record(s, op, 0, r, outcome=o)
    wrap("compute_bounds", d_compute)
    # in-place writes through views (normalisation divides the bound columns in place) are not public calls: objects that are
    # modified behind the API show up as a refinement mismatch at their next event; copies start their own trace
    orig_copy = G.copy

    def copy(self):
        DEPTH[0] += 1
        try:
            new = orig_copy(self)
        finally:
            DEPTH[0] -= 1
        if DEPTH[0] == 0:
            TRACES.pop(id(new), None)
            start(new)
        return new
    G.copy = copy


def pytest_configure(config):
    if OUT:
        install()


def pytest_sessionfinish(session, exitstatus):
    if not OUT:
        return
    by_n = {}
    for t in TRACES.values():
        if t["events"]:
            by_n.setdefault(t["n"], []).append(t)
    summary = []
    for n, ts in by_n.items():
        # keep the batch small: objects built by identical loops are dropped first (one representative per operation signature),
        # then an evenly spaced sample
        seen, uniq = set(), []
        for t in ts:
            sig = (tuple((e["op"], e["c"], e["x"], tuple(e["cs"])) for e in t["events"]), tuple(t["init"][0]["k"]), tuple(t["init"][0]["lo"]))
            if sig not in seen:
                seen.add(sig)
                uniq.append(t)
        ts = uniq
        cap = int(os.environ.get("ICG_TRACE_CAP", "700"))
        if len(ts) > cap:
            step = len(ts) / cap
            ts = [ts[int(i * step)] for i in range(cap)]
        for i, t in enumerate(ts):
            t["tid"] = i + 1
        path = f"{OUT}_tests_n{n}.json"
        with open(path, "w") as f:
            json.dump({"traces": ts}, f, separators=(",", ":"))
        summary.append({"n": n, "path": path, "traces": len(ts), "events": sum(len(t["events"]) for t in ts)})
    with open(OUT + "_summary.json", "w") as f:
        json.dump(summary, f)
